"""Shared leg: backward conformance of all entry points against API.tla (spec/Obs_API.tla).
Rules reported by the spec are attributed to properties by prefix."""
import json, os
import vlib

RULES = {"C02": ("entry.",), "C07": ("iter.", "findall."), "C08": ("wf.",), "C09": ("replace.", "split.")}


def corrupt(rec, prop):
    r = json.loads(json.dumps(rec))
    r["id"] = -1
    for c in r["cases"]:
        if prop == "C02":
            c["ms"]["v"] = not c["ms"]["v"]
            return r
        if prop == "C07":
            for fa in c["fari"]:
                if fa["n"] == -1:
                    fa["v"] = fa["v"] + [[0, 0], [0, 0]]
                    return r
        if prop == "C08":
            for m in c["iter"]:
                if m["ok"]:
                    m["b"][1] += 1
                    return r
        if prop == "C09":
            for rp in c["rep"]:
                rp["out"] = rp["out"] + [33]
                return r
    return None


def obs_api(ctx, res, rec_args, label, prop, timeout=3000):
    path = os.path.join(ctx.dir, f"api-{label}.ndjson")
    p = ctx.run_vh(["record-api", "-o", path] + rec_args)
    ctx.log(label, p.stderr.strip().splitlines()[-1])
    recs = vlib.read_ndjson(path)
    if not recs:
        raise vlib.Broken("recorder produced no records")
    bad_self = None
    for r in recs:
        bad_self = corrupt(r, prop)
        if bad_self:
            break
    if bad_self is None:
        raise vlib.Broken("no record usable for the binding self-test")
    with open(path, "a") as f:
        f.write(json.dumps(bad_self, ensure_ascii=False) + "\n")
    tags, dropped = ctx.tlc_obs("Obs_API", path, [r["id"] for r in recs] + [-1], label)
    if tags.get("WFERR"):
        raise vlib.Broken(f"generator produced ill-formed tables: {tags['WFERR'][:2]}")
    recsum = {r["id"]: r for r in tags.get("REC", [])}
    if len(recsum) + len(dropped) != len(recs) + 1:
        raise vlib.Broken(f"TLC checked {len(recsum)} of {len(recs)+1} records")
    mine = RULES[prop]
    if not any(b["id"] == -1 and b["rule"].startswith(mine) for b in tags.get("BAD", [])):
        raise vlib.Broken("binding self-test failed: a corrupted record was accepted by Obs_API")
    byid = {r["id"]: r for r in recs}
    other = {}
    for b in tags.get("BAD", []):
        if b["id"] == -1:
            continue
        if b["rule"] == "DECODE":
            raise vlib.Broken(f"API.tla's UTF-8 decoder disagrees with Go's on record {b['id']}")
        r = byid[b["id"]]
        c = r["cases"][b["ci"] - 1]
        if not b["rule"].startswith(mine):
            other[b["rule"]] = other.get(b["rule"], 0) + 1
            continue
        v = {"rule": b["rule"], "detail": b["detail"], "pattern": r["text"], "options": r["o"], "dialect": r["dia"],
             "rtl": r["rtl"], "exact": r["exact"], "input_bytes": c["b"],
             "input_text": bytes(c["b"]).decode("utf8", "replace"), "p": r["p"]}
        if b["rule"].startswith("replace.") and b["detail"].isdigit():
            rp = c["rep"][int(b["detail"]) - 1]
            v.update({"replacement": "".join(chr(x) for x in rp["r"]), "startAt_runes": rp["start"], "count": rp["count"],
                      "out": "".join(chr(x) for x in rp["out"]), "err": rp["err"], "repls": [rp["r"]]})
        if b["rule"].startswith("split.") and b["detail"].isdigit():
            sp = c["split"][int(b["detail"]) - 1]
            v.update({"count": sp["count"], "out": ["".join(chr(x) for x in piece) for piece in sp["out"]], "err": sp["err"]})
        res.violation(v)
    if other:
        ctx.log(f"{label}: facts rejected under other properties' rules (reported by their own checks): {other}")
    n_cases = sum(r["cases"] for i, r in recsum.items() if i != -1)
    res.evaluations += n_cases
    res.traces += n_cases
    res.nontrivial += sum(r["nontrivial"] for i, r in recsum.items() if i != -1)
    for r in recs[:40]:
        if r["cases"] and len(r["cases"][0]["iterr"]) >= 2:
            c = r["cases"][0]
            res.add_sample({"pattern": r["text"], "options": r["o"], "rtl": r["rtl"], "exact_oracle": r["exact"],
                            "input": bytes(c["b"]).decode("utf8", "replace"),
                            "match_chain": [[m["idx"], m["len"]] for m in c["iterr"]],
                            "find_all_string_index": c["fai"][0]["v"],
                            "replace": [{"r": "".join(chr(x) for x in rp["r"]), "count": rp["count"], "out": "".join(chr(x) for x in rp["out"])} for rp in c["rep"][:2]],
                            "split": ["".join(chr(x) for x in pc) for pc in c["split"][0]["out"]]}, cap=3)
    return len(recs), n_cases


def replay_api(ctx, res, v, prop):
    ctx.build()
    case = {"p": v["p"], "o": v["options"], "dia": v["dialect"], "rtl": v["rtl"], "exact": v["exact"], "b": v["input_bytes"],
            "repls": v.get("repls") or [[36, 38]]}
    cpath = os.path.join(ctx.dir, "case.json")
    json.dump(case, open(cpath, "w"))
    path = os.path.join(ctx.dir, "replay.ndjson")
    ctx.run_vh(["record-api", "-case", cpath, "-o", path])
    out = ctx.tlc("Obs_API", "Obs.cfg", env_extra={"VERIF_OBS": path})
    for b in out["tags"].get("BAD", []):
        if b["rule"].startswith(RULES[prop]):
            res.violation({"rule": b["rule"], "detail": b["detail"], "pattern": v["pattern"], "input_text": v["input_text"]})


def attribute_api(ctx, viols, gate, prop):
    """re-records the violating (pattern, input) cases with a rewrite gate on; a violation is explained by the gate's
    finding when no rule of this property is rejected for that case any more"""
    keyed, cases = {}, []
    for v in viols:
        if "p" not in v or "input_bytes" not in v:
            continue
        key = json.dumps([v["p"], v["options"], v["dialect"], v["rtl"], v["input_bytes"]])
        if key not in keyed:
            keyed[key] = len(cases) + 1
            cases.append({"p": v["p"], "o": v["options"], "dia": v["dialect"], "rtl": v["rtl"], "exact": v["exact"],
                          "b": v["input_bytes"], "repls": v.get("repls") or [[36, 38]]})
    if not cases:
        return []
    cpath = os.path.join(ctx.dir, f"attr-{gate}.json")
    json.dump(cases, open(cpath, "w"))
    path = os.path.join(ctx.dir, f"attr-{gate}.ndjson")
    ctx.run_vh(["record-api", "-case", cpath, "-o", path], env_extra={"VERIF_GATES": gate})
    out = ctx.tlc("Obs_API", "Obs.cfg", env_extra={"VERIF_OBS": path})
    still_bad = {b["id"] for b in out["tags"].get("BAD", []) if b["rule"].startswith(RULES[prop])}
    res = []
    for v in viols:
        if "p" in v and "input_bytes" in v:
            key = json.dumps([v["p"], v["options"], v["dialect"], v["rtl"], v["input_bytes"]])
            if keyed[key] not in still_bad:
                res.append(v)
    return res

"""C01 - first match and captures follow leftmost priority-ordered backtracking (DESIGN.md 6/C01)."""
from checks import findobs

LEVEL = "model_checking"


def run(ctx, res):
    ctx.build()
    res.rule = ("B: random source ASTs of the C01 fragment (depth<=4, node budget, non-nullable quantifier operands) x "
                "option sets from {i,m,s,n,x,RE2} x pattern-directed inputs (<=12 runes; newlines, non-ASCII, combining, "
                "astral) x every start offset; the result of FindRunesMatchStartingAt is compared by TLC with "
                "RegexSem.Find(Elab(p,O)) (index, length, complete capture lists). non-trivial = distinct (pattern,input) "
                "whose match from the natural start is not at the first attempt position or has capture groups")
    n = 1500 if ctx.tier == "quick" else 12000
    batches = 1 if ctx.tier == "quick" else 6
    for b in range(batches):
        findobs.obs_find(ctx, res, ["-n", str(n // batches), "-stream", str(10 + b), "-rtl", "no"], f"ltr{b}")
    res.assumptions += ["TLC and the CommunityModules Json/IOUtils", "Go standard library unicode tables (Unicode.tla)",
                        "the harness printer prints exactly the AST the specification interprets"]


def replay(ctx, res, v):
    findobs.replay_find(ctx, res, v)

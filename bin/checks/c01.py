"""C01 - first match and captures follow leftmost priority-ordered backtracking (DESIGN.md 6/C01)."""
from checks import findobs, findgen

LEVEL = "model_checking"


def run(ctx, res):
    ctx.build()
    res.rule = ("F: TLC enumerates the bounded grammar of Gen_Find (28 families, 225 536 patterns over letters a,b; quantifier operands may be nullable or quantified) and predicts "
                "RegexSem.Find for every input string over the alphabet up to the length bound and every start offset; the "
                "replayer compares index, length and complete capture lists. B: random source ASTs of the C01 fragment "
                "(depth<=4, node budget) x option sets from {i,m,s,n,x,RE2} x pattern-directed inputs (<=12 runes; newlines, "
                "non-ASCII, combining, astral) x every start offset, recomputed by TLC (Obs_Find). non-trivial = distinct "
                "(pattern,input) whose match from the natural start is not simply at the first attempt position without groups")
    findgen.selftest(ctx)
    if ctx.tier == "quick":
        off = ctx.seed % 16
        findgen.gen_find(ctx, res, findgen.ALL_FAMILIES, [], "net", False, [97, 98, 10], 3, 16, off, "F-net")
        # the small families whose interactions need a fourth input character (a loop, what follows it, and the rest)
        findgen.gen_find(ctx, res, ["atomseq", "nlend"], [], "net", False, [97, 98, 10], 4, 2, ctx.seed % 2, "F-net-len4")
        # the end anchors change their meaning under Multiline ($ = end of line): the same small family compiled with m
        findgen.gen_find(ctx, res, ["nlend"], ["m"], "net", False, [97, 98, 10], 4, 2, (ctx.seed + 1) % 2, "F-m-len4")
        findobs.obs_find(ctx, res, ["-n", "1200", "-stream", "10", "-rtl", "no"], "B-ltr")
    else:
        findgen.gen_find(ctx, res, findgen.ALL_FAMILIES, [], "net", False, [97, 98, 10], 3, 1, 0, "F-net-abn3")
        findgen.gen_find(ctx, res, findgen.ALL_FAMILIES, [], "net", False, [97, 98], 5, 3, ctx.seed % 3, "F-net-ab5")
        findgen.gen_find(ctx, res, ["atomseq", "nlend", "atom", "nested"], [], "net", False, [97, 98, 10], 4, 1, 0, "F-net-len4")
        findgen.gen_find(ctx, res, findgen.ALL_FAMILIES, ["i", "m"], "net", False, [97, 66, 10], 3, 2, ctx.seed % 2, "F-im")
        findgen.gen_find(ctx, res, findgen.ALL_FAMILIES, ["s", "x"], "net", False, [97, 98, 10], 3, 2, (ctx.seed + 1) % 2, "F-sx")
        findgen.gen_find(ctx, res, findgen.ALL_FAMILIES, ["n"], "net", False, [97, 98, 10], 3, 3, ctx.seed % 3, "F-n")
        findgen.gen_find(ctx, res, findgen.ALL_FAMILIES, [], "re2", False, [97, 98, 10], 3, 3, (ctx.seed + 1) % 3, "F-re2")
        for b in range(6):
            findobs.obs_find(ctx, res, ["-n", "2500", "-stream", str(10 + b), "-rtl", "no"], f"B-ltr{b}")
        findobs.obs_find(ctx, res, ["-n", "2000", "-stream", "30", "-rtl", "no", "-depth", "6", "-maxlen", "24"], "B-deep")
        res.exhaustive = True
    res.assumptions += ["TLC and the CommunityModules Json/IOUtils", "Go standard library unicode tables (Unicode.tla)",
                        "the harness printer prints exactly the AST the specification interprets"]


def replay(ctx, res, v):
    findobs.replay_find(ctx, res, v)


def attribute(ctx, viols, gate):
    return findobs.attribute_find(ctx, viols, gate)

"""C02 (DESIGN.md section 6/C02): all entry points of one compiled pattern on one input are recorded in one record;
TLC accepts the record iff it is what spec/API.tla derives from one search function."""
from checks import apiobs

LEVEL = "model_checking"
RULE = ("one record = MatchString, MatchRunes, FindStringMatch, FindRunesMatch, both StartingAt forms at every rune offset, both "
        "FindNextMatch chains, FindAll{String,Runes}Index for n in {-1,0,1,2,3}, the matches handed to a ReplaceFunc evaluator, "
        "Replace and Split, for one pattern x one byte-string input (30% with injected invalid UTF-8). Rules entry.*: every entry "
        "point equals API.tla's function of one search function (RegexSem.Find for the whole syntax incl. nullable loops, \\G and balancing groups - "
        "profile 'balancing': a group popped by (?<x-n>..) in every pattern, direction-aware; the recorded rune searches only for explicitly numbered sparse groups), string results = rune results. non-trivial = records whose chain has >= 2 matches")
STREAM = 100
QUICK = [("frag", ["-n", "500", "-rtl", "both"]), ("wide", ["-n", "800", "-profile", "wide", "-rtl", "both"]),
         ("bal", ["-n", "300", "-profile", "balancing", "-rtl", "both"]),
         ("sparse", ["-n", "300", "-profile", "sparse", "-rtl", "both"])]
THOROUGH = [("frag%d" % i, ["-n", "1500", "-rtl", "both"]) for i in range(3)] + [("wide%d" % i, ["-n", "2500", "-profile", "wide", "-rtl", "both", "-maxlen", "14"]) for i in range(5)] + \
           [("bal%d" % i, ["-n", "1500", "-profile", "balancing", "-rtl", "both"]) for i in range(2)] + \
           [("sparse%d" % i, ["-n", "1500", "-profile", "sparse", "-rtl", "both"]) for i in range(2)]
PROP = "C02"


def run(ctx, res):
    ctx.build()
    res.rule = RULE
    plan = QUICK if ctx.tier == "quick" else THOROUGH
    for k, (label, args) in enumerate(plan):
        apiobs.obs_api(ctx, res, args + ["-stream", str(STREAM + k)], label, PROP)
    res.assumptions += ["TLC and the CommunityModules Json/IOUtils", "Go standard library unicode tables and UTF-8 decoding (cross-checked against API.tla's decoder on every input)",
                        "outside the exact fragment the reference search table is the one recorded from FindRunesMatchStartingAt"]


def replay(ctx, res, v):
    apiobs.replay_api(ctx, res, v, PROP)


def attribute(ctx, viols, gate):
    return apiobs.attribute_api(ctx, viols, gate, PROP)

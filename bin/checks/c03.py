"""C03 - search acceleration never loses, adds or moves a match (DESIGN.md 6/C03)."""
import vlib
from checks import relobs

LEVEL = "model_checking"
RULES = ("rel.naive", "rel.codegen", "skip.", "rel.spec")


def run(ctx, res):
    ctx.build()
    res.rule = ("(a) relational: FindRunesMatchStartingAt as shipped vs VerifNaive (the compiled program attempted at every position in scan "
                "order: no candidate search, no prefix filter, no min-length cut-off, no bump-along) for every start offset, on patterns biased to "
                "every find mode (leading string(s), fixed-distance char/string/sets, literal after loop, landmark chain, trailing anchor, anchors, "
                "Boyer-Moore, first-char sets incl. astral) on random ASTs in both directions, and on the patterns harvested from the string literals of the repository's own *_test.go files "
                "(subjects derived from each pattern's words and from the neighbouring literals; relational only); code-gen analysis on vs off. (b) trace validation "
                "of the SkipTo contract: every (from,to,found) of every candidate search is logged by the VerifOnFind hook and TLC accepts it only if "
                "every position jumped over is dead - by RegexSem.Attempt inside the fragment, by the naive table outside. evaluations = searches "
                "compared; traces = candidate-search events validated; non-trivial = inputs with a real skip or a match")
    S = 500 + (ctx.seed % 50) * 7
    if ctx.tier == "quick":
        plan = [("accel", ["-n", "2500", "-profile", "accel", "-variant", "naive", "-maxlen", "16"]),
                ("wide", ["-n", "900", "-profile", "wide", "-rtl", "both", "-variant", "naive"]),
                ("codegen", ["-n", "700", "-profile", "accel", "-variant", "codegen", "-maxlen", "16"]),
                ("harvest", ["-profile", "harvest", "-harvest", vlib.REPO, "-variant", "naive", "-rtl", "both"])]
    else:
        plan = [("accel%d" % i, ["-n", "6000", "-profile", "accel", "-variant", "naive", "-maxlen", "16"]) for i in range(4)] + \
               [("wide%d" % i, ["-n", "3000", "-profile", "wide", "-rtl", "both", "-variant", "naive"]) for i in range(3)] + \
               [("frag%d" % i, ["-n", "3000", "-profile", "fragment", "-rtl", "both", "-variant", "naive"]) for i in range(2)] + \
               [("codegen%d" % i, ["-n", "3000", "-profile", "accel", "-variant", "codegen"]) for i in range(2)] + \
               [("harvest-" + v, ["-profile", "harvest", "-harvest", vlib.REPO, "-variant", v, "-rtl", "both"]) for v in ("naive", "codegen")]
    for k, (label, args) in enumerate(plan):
        relobs.obs_rel(ctx, res, args + ["-stream", str(S + k)], label, RULES)
    res.assumptions += ["TLC and the CommunityModules Json/IOUtils", "the VerifNaive hook copy shares the compiled program and only replaces the candidate search",
                        "outside the fragment liveness of a skipped position is taken from the naive scan of the real engine"]


def replay(ctx, res, v):
    relobs.replay_rel(ctx, res, v, RULES)


def attribute(ctx, viols, gate):
    return relobs.attribute_rel(ctx, viols, gate, RULES)

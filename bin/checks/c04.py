"""C04 - compile-time facts published for a pattern hold at every real match (DESIGN.md 6/C04)."""
import json, os
import vlib

LEVEL = "model_checking"


def corrupt(rec):
    r = json.loads(json.dumps(rec))
    r["id"] = -1
    r["facts"]["minlen"] = 10 ** 6      # false at every match, whatever the pattern's real minimum is
    return r


def obs_facts(ctx, res, args, label):
    path = os.path.join(ctx.dir, f"facts-{label}.ndjson")
    p = ctx.run_vh(["record-facts", "-o", path] + args)
    ctx.log(label, p.stderr.strip().splitlines()[-1])
    recs = vlib.read_ndjson(path)
    if not recs:
        raise vlib.Broken("recorder produced no records")
    with open(path, "a") as f:
        f.write(json.dumps(corrupt(recs[0]), ensure_ascii=False) + "\n")
    tags, dropped = ctx.tlc_obs("Obs_Facts", path, [r["id"] for r in recs] + [-1], label)
    if tags.get("WFERR"):
        raise vlib.Broken(f"generator produced ill-formed tables: {tags['WFERR'][:2]}")
    recsum = {r["id"]: r for r in tags.get("REC", [])}
    if len(recsum) + len(dropped) != len(recs) + 1:
        raise vlib.Broken(f"TLC checked {len(recsum)} of {len(recs)+1} records")
    bads = {b["id"]: b for b in tags.get("BAD", [])}
    if -1 not in bads and -1 in recsum and recsum[-1]["matches"] > 0:
        raise vlib.Broken("binding self-test failed: a corrupted fact was accepted by Obs_Facts")
    if -1 not in recsum:
        raise vlib.Broken("binding self-test: TLC gave no verdict on the corrupted record")
    byid = {r["id"]: r for r in recs}
    for i, b in bads.items():
        if i == -1:
            continue
        r = byid[i]
        res.violation({"rule": "fact." + "+".join(sorted(b["facts"])), "pattern": r["text"], "options": r["o"], "rtl": r["rtl"],
                       "codegen": r["codegen"], "find_mode": r["facts"]["mode"], "input": b["s"],
                       "input_text": "".join(chr(x) for x in b["s"]), "match_at": b["pos"], "match_end": b["mend"],
                       "violated_facts": b["facts"], "positions_violating": b["count"], "facts": r["facts"],
                       "p": r["p"], "dialect": r["dia"], "alpha": r["alpha"], "maxlen": r["maxlen"], "extra": r.get("extra", [])})
    res.evaluations += sum(r["strings"] for i, r in recsum.items() if i != -1)
    res.traces += len(recs)
    res.nontrivial += sum(1 for i, r in recsum.items() if i != -1 and r["matches"] > 0 and byid[i]["facts"]["mode"] != "NoSearch")
    res.extra["matches_checked"] = res.extra.get("matches_checked", 0) + sum(r["matches"] for i, r in recsum.items() if i != -1)
    modes = res.extra.setdefault("find_modes_exercised", {})
    for r in recs:
        modes[r["facts"]["mode"]] = modes.get(r["facts"]["mode"], 0) + 1
    for r in recs[:80]:
        if r["facts"]["mode"] not in ("NoSearch",) and len(res.samples) < 4:
            f = r["facts"]
            res.add_sample({"pattern": r["text"], "options": r["o"], "rtl": r["rtl"], "codegen": r["codegen"], "alphabet": "".join(chr(x) for x in r["alpha"]),
                            "facts": {k: f[k] for k in ("mode", "minlen", "maxlen", "lead", "trail", "prefix", "fdkind", "fdsets", "anch")},
                            "strings_enumerated": recsum[r["id"]]["strings"], "matches_checked": recsum[r["id"]]["matches"]})


def run(ctx, res):
    ctx.build()
    res.rule = ("for each pattern (accel shapes for every find mode + random fragment ASTs; code-gen analysis on/off; both directions) the facts "
                "are exported from the real compile (FindOptimizations incl. prefixes, fixed-distance literal/sets, literal-after-loop, landmark "
                "chain; FcPrefix; BmPrefix; Anchors) and TLC enumerates EVERY string over a 5-symbol pattern-derived alphabet up to length 4 "
                "(781 strings) and every attempt position, computing the real matches with RegexSem.Attempt and checking Facts!FactsHold at each. "
                "evaluations = strings enumerated; non-trivial = patterns with a search mode and at least one match; exhaustive within the bound")
    S = 700 + (ctx.seed % 50) * 5
    if ctx.tier == "quick":
        plan = [("accel", ["-n", "600", "-rtl", "both"]), ("frag", ["-n", "120", "-profile", "fragment", "-rtl", "both"])]
    else:
        plan = [("accel%d" % i, ["-n", "2500", "-rtl", "both"]) for i in range(4)] + \
               [("frag%d" % i, ["-n", "2000", "-profile", "fragment", "-rtl", "both"]) for i in range(2)] + \
               [("len5", ["-n", "600", "-maxlen", "5"])]
    for k, (label, args) in enumerate(plan):
        obs_facts(ctx, res, args + ["-stream", str(S + k)], label)
    res.exhaustive = True
    res.assumptions += ["TLC and the CommunityModules Json/IOUtils", "sets are exported as their membership over the test alphabet, evaluated by the engine's own CharIn (class membership itself is C16)",
                        "MinRequiredLength is read as the minimum remaining input (its use in the scan loop), not as a match length"]


def replay(ctx, res, v):
    ctx.build()
    case = [{"p": v["p"], "o": v["options"], "dia": v["dialect"], "rtl": v["rtl"], "codegen": v["codegen"], "alpha": v["alpha"], "maxlen": v["maxlen"], "extra": v.get("extra", [])}]
    cpath = os.path.join(ctx.dir, "case.json")
    json.dump(case, open(cpath, "w"))
    path = os.path.join(ctx.dir, "replay.ndjson")
    ctx.run_vh(["record-facts", "-case", cpath, "-o", path])
    out = ctx.tlc("Obs_Facts", "Obs.cfg", env_extra={"VERIF_OBS": path})
    for b in out["tags"].get("BAD", []):
        res.violation({"rule": "fact." + "+".join(sorted(b["facts"])), "pattern": v["pattern"], "input": b["s"], "match_at": b["pos"]})


def attribute(ctx, viols, gate):
    """a fact that fails only because a gate-identified rewrite changed what the pattern matches: re-export the facts of the
    same patterns with the gate on and let TLC judge them again; violations of patterns that are clean then belong to the finding"""
    cases, idx = [], {}
    for v in viols:
        if "p" not in v:
            continue
        key = json.dumps([v["p"], v["options"], v["rtl"], v["codegen"]])
        if key not in idx:
            idx[key] = len(cases) + 1
            cases.append({"p": v["p"], "o": v["options"], "dia": v["dialect"], "rtl": v["rtl"], "codegen": v["codegen"], "alpha": v["alpha"], "maxlen": v["maxlen"], "extra": v.get("extra", [])})
    if not cases:
        return []
    cpath = os.path.join(ctx.dir, f"attr-{gate}.json")
    json.dump(cases, open(cpath, "w"))
    path = os.path.join(ctx.dir, f"attr-{gate}.ndjson")
    ctx.run_vh(["record-facts", "-case", cpath, "-o", path], env_extra={"VERIF_GATES": gate})
    out = ctx.tlc("Obs_Facts", "Obs.cfg", env_extra={"VERIF_OBS": path})
    still = {b["id"] for b in out["tags"].get("BAD", [])}
    return [v for v in viols if "p" in v and idx[json.dumps([v["p"], v["options"], v["rtl"], v["codegen"]])] not in still]

"""C05 - pattern rewrites preserve meaning (DESIGN.md 6/C05)."""
import vlib
from checks import relobs, findgen, findobs

LEVEL = "model_checking"
RULES = ("rel.norewrite", "rel.spec", "find.mismatch")


def run(ctx, res):
    ctx.build()
    res.rule = ("the same pattern compiled as shipped and with the rewrite gates on (no-auto-atomic, no-ending-backtracking-elimination, "
                "no-bumpalong, no-prefix-factoring, no-atomic-alternation-rewrites; run through the naive scan), every input and start offset: "
                "match and all captures must be equal (rule rel.norewrite) and, inside the fragment, equal to RegexSem.Find (rel.spec). Patterns: "
                "random ASTs (fragment and wide profiles: loop-followed-by-X, shared-prefix alternations, nested atomics, look-arounds incl. "
                "look-behind, conditionals), the accel shapes, and the patterns harvested from the repository's own test files (relational only). non-trivial = inputs with a match or a real skip")
    S = 600 + (ctx.seed % 50) * 7
    if ctx.tier == "quick":
        plan = [("frag", ["-n", "1500", "-profile", "fragment", "-variant", "norewrite"]),
                ("wide", ["-n", "1200", "-profile", "wide", "-variant", "norewrite"]),
                ("accel", ["-n", "800", "-profile", "accel", "-variant", "norewrite", "-maxlen", "16"]),
                ("harvest", ["-profile", "harvest", "-harvest", vlib.REPO, "-variant", "norewrite"])]
    else:
        plan = [("frag%d" % i, ["-n", "4000", "-profile", "fragment", "-variant", "norewrite", "-maxlen", "14"]) for i in range(4)] + \
               [("wide%d" % i, ["-n", "4000", "-profile", "wide", "-variant", "norewrite", "-maxlen", "14"]) for i in range(4)] + \
               [("accel%d" % i, ["-n", "3000", "-profile", "accel", "-variant", "norewrite"]) for i in range(2)] + \
               [("harvest", ["-profile", "harvest", "-harvest", vlib.REPO, "-variant", "norewrite", "-rtl", "both"])]
    for k, (label, args) in enumerate(plan):
        relobs.obs_rel(ctx, res, args + ["-stream", str(S + k)], label, RULES)
    # F leg on the families whose shapes the rewrites look at (loops followed by X inside iterated bodies, atomic groups,
    # nested quantified groups): the rewritten program must equal the specification's prediction
    fams = ["body3", "body3g", "atomseq", "alt2", "altcat"] if ctx.tier == "quick" else ["body3", "body3g", "atomseq", "alt2", "altcat", "grpq", "nested", "atom", "altseq", "seqalt"]
    stride = 6 if ctx.tier == "quick" else 1
    findgen.gen_find(ctx, res, fams, [], "net", False, [97, 98, 99], 3, stride, ctx.seed % stride, "F-rewrite-shapes")
    findgen.gen_find(ctx, res, ["atomseq"], [], "net", False, [97, 98, 10], 4, 2 if ctx.tier == "quick" else 1, ctx.seed % 2 if ctx.tier == "quick" else 0, "F-atomic-lazy-len4")
    # loops in front of the end anchors, with and without Multiline (what may follow a loop decides whether it is made atomic)
    for o in ([], ["m"]):
        findgen.gen_find(ctx, res, ["nlend"], o, "net", False, [97, 98, 10], 3 if ctx.tier == "quick" else 4, 2 if ctx.tier == "quick" else 1,
                         ctx.seed % 2 if ctx.tier == "quick" else 0, "F-end-anchors" + ("-m" if o else ""))
    res.assumptions += ["TLC and the CommunityModules Json/IOUtils", "the rewrite gates (syntax/verif_on.go) switch off exactly the rewrites C05 names; reductions that are part of parsing (loop coalescing, quantifier multiplication) stay on"]


def replay(ctx, res, v):
    if v.get("rule") == "find.mismatch":
        findobs.replay_find(ctx, res, v)
    else:
        relobs.replay_rel(ctx, res, v, RULES)


def attribute(ctx, viols, gate):
    rel = [v for v in viols if str(v.get("rule", "")).startswith("rel.")]
    fnd = [v for v in viols if v.get("rule") == "find.mismatch"]
    return (relobs.attribute_rel(ctx, rel, gate, RULES) if rel else []) + (findobs.attribute_find(ctx, fnd, gate) if fnd else [])

"""C06 - the RE2-mode adapter agrees with Go's regexp package (DESIGN.md 6/C06)."""
import json, os
import vlib

LEVEL = "model_checking"
FAMS = ["seq2", "seq3", "alt2", "altseq", "seqalt", "grpq", "grpq2", "ncgq", "anchor", "anchor2", "named", "nested", "opti", "optm", "opts"]


def leg(ctx, res, alpha, maxlen, stride, offset, label):
    params = {"families": FAMS, "dia": "re2", "rtl": False, "alpha": alpha, "maxlen": maxlen, "stride": stride, "offset": offset,
              "variants": [{"spelling": "plain", "so": [], "o": []}], "nonnull": True}
    ppath = os.path.join(ctx.dir, f"params-{label}.json")
    json.dump(params, open(ppath, "w"))
    out = ctx.tlc("Gen_Find", "Obs.cfg", env_extra={"VERIF_PARAMS": ppath}, timeout=3000)
    gpath = os.path.join(ctx.dir, f"gen-{label}.txt")
    open(gpath, "w").write(out["raw"])
    d = json.loads(ctx.run_vh(["replay-compat", "-i", gpath], timeout=3000).stdout)
    os.remove(gpath)
    npred = len(out["tags"].get("P", []))
    if d["patterns"] + d["not_common_syntax"] + d["adapter_compile_errors"] != npred or d["patterns"] == 0:
        raise vlib.Broken(f"replayer consumed {d['patterns']}+{d['not_common_syntax']} of {npred} predicted patterns")
    ctx.log(f"{label}: patterns={d['patterns']} not_common={d['not_common_syntax']} comparisons={d['checks']} mismatches={len(d['mismatches'])} specdiff={d['specdiff']}")
    real = [m for m in d["mismatches"] if m["rule"] != "SPECDIFF"]
    if d["specdiff"] and not real:
        ex = [m for m in d["mismatches"] if m["rule"] == "SPECDIFF"][:2]
        raise vlib.Broken(f"the specification and the standard library disagree while the adapter agrees with the library ({d['specdiff']} cases): {ex}")
    for m in real:
        res.violation(m)
    res.evaluations += d["checks"]
    res.nontrivial += d["nontrivial"]
    res.traces += d["patterns"]
    for s in d["samples"][:2]:
        res.add_sample(s)


def selftest(ctx):
    """the comparator must notice a difference: the same machinery on an adapter compiled WITHOUT the RE2 option ($ means \\Z there)"""
    rec = {"pid": 1, "o": [], "fam": "selftest",
           "p": [{"op": "cat", "rs": [], "neg": False, "cls": "", "min": 0, "max": 0, "lazy": False, "kids": [2, 3], "g": 0, "nm": "", "on": [], "off": []},
                 {"op": "chr", "rs": [[97, 97]], "neg": False, "cls": "", "min": 0, "max": 0, "lazy": False, "kids": [], "g": 0, "nm": "", "on": [], "off": []},
                 {"op": "sh", "rs": [], "neg": False, "cls": "w", "min": 0, "max": 0, "lazy": False, "kids": [], "g": 0, "nm": "", "on": [], "off": []}],
           "res": [[[0, 2, []], [], []]]}     # predicts that a\w matches "aé" - true for .NET \w, false for RE2's ASCII \w
    lines = ['<<"INPUTS", ' + json.dumps(json.dumps({"n": 1, "inputs": [[97, 233]]})) + '>>', '<<"P", ' + json.dumps(json.dumps(rec)) + '>>']
    path = os.path.join(ctx.dir, "selftest-compat.txt")
    open(path, "w").write("\n".join(lines) + "\n")
    d = json.loads(ctx.run_vh(["replay-compat", "-i", path]).stdout)
    if d["specdiff"] != 1:
        raise vlib.Broken("binding self-test failed: a prediction that contradicts the standard library was not noticed")


def run(ctx, res):
    ctx.build()
    res.rule = ("TLC enumerates the Gen_Find families restricted by the standard library itself to the common syntax (a pattern regexp.Compile rejects is skipped; no quantified "
                "nullable sub-pattern by construction) in RE2 dialect; for every pattern x every input string up to the bound (as string, []byte and RuneReader; every third input also "
                "with an invalid byte 0xFF inserted and a truncated 3-byte sequence appended) x n in {-1,0,1,2,3} all 22 methods of compat.Regexp are compared with regexp.Regexp "
                "(values, nil-ness, byte offsets, -1 pairs, empty-match rule). Third leg: RegexSem's prediction of the first match must agree with the standard library as well "
                "(otherwise the check is broken, not the code). evaluations = method comparisons; non-trivial = patterns with at least one match")
    selftest(ctx)
    if ctx.tier == "quick":
        leg(ctx, res, [97, 233, 10], 3, 24, ctx.seed % 24, "q")
    else:
        leg(ctx, res, [97, 233, 10], 3, 3, ctx.seed % 3, "abn")
        leg(ctx, res, [97, 98], 4, 6, ctx.seed % 6, "ab4")
        leg(ctx, res, [97, 0x1F600, 32], 3, 6, (ctx.seed + 2) % 6, "astral")
    res.assumptions += ["Go's regexp package is the oracle (the property's own wording)", "TLC generates the cases; the specification's prediction is only used to localise a difference"]


def replay(ctx, res, v):
    raise vlib.Broken("re-run the check: the case space is enumerated deterministically")

"""C07 (DESIGN.md section 6/C07): all entry points of one compiled pattern on one input are recorded in one record;
TLC accepts the record iff it is what spec/API.tla derives from one search function."""
from checks import apiobs

LEVEL = "model_checking"
RULE = ("records as in C02, biased to nullable and zero-width shapes (wide profile). Rules iter.*: the FindNextMatch chain terminates within "
        "len+1 matches, advances strictly in scan order with disjoint spans, never repeats an empty match, and equals the chain of "
        "independent searches started at the previous end (one further after an empty match) with \\G bound there (spec search inside the "
        "fragment; recorded StartingAt searches for patterns without \\G outside). findall.*: FindAll*Index(n) = the chain minus empty "
        "matches adjacent to the preceding match, truncated to n, in rune and byte indexes, n in {-1,0,1,2,3}. non-trivial = chains of >= 2 matches")
STREAM = 200
QUICK = [("wide", ["-n", "1000", "-profile", "wide", "-rtl", "both", "-repl", "1"]), ("frag", ["-n", "400", "-rtl", "both", "-repl", "1"])]
THOROUGH = [("wide%d" % i, ["-n", "2500", "-profile", "wide", "-rtl", "both", "-repl", "1", "-maxlen", "14"]) for i in range(6)] + [("frag%d" % i, ["-n", "1500", "-rtl", "both", "-repl", "1"]) for i in range(2)]
PROP = "C07"


def run(ctx, res):
    ctx.build()
    res.rule = RULE
    plan = QUICK if ctx.tier == "quick" else THOROUGH
    for k, (label, args) in enumerate(plan):
        apiobs.obs_api(ctx, res, args + ["-stream", str(STREAM + k)], label, PROP)
    res.assumptions += ["TLC and the CommunityModules Json/IOUtils", "Go standard library unicode tables and UTF-8 decoding (cross-checked against API.tla's decoder on every input)",
                        "outside the exact fragment the reference search table is the one recorded from FindRunesMatchStartingAt"]


def replay(ctx, res, v):
    apiobs.replay_api(ctx, res, v, PROP)


def attribute(ctx, viols, gate):
    return apiobs.attribute_api(ctx, viols, gate, PROP)

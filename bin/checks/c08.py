"""C08 (DESIGN.md section 6/C08): all entry points of one compiled pattern on one input are recorded in one record;
TLC accepts the record iff it is what spec/API.tla derives from one search function."""
from checks import apiobs

LEVEL = "model_checking"
RULE = ("records as in C02 with 60% of the inputs carrying invalid UTF-8 (lone continuation/lead bytes, truncated sequences, surrogates, "
        "overlongs, literal U+FFFD) and balancing groups / captures in look-behind and loops. Rules wf.*: for every match returned by every "
        "entry point: all captures inside the input, group 0 = one capture = the match, embedded capture = last capture, String()/Runes()/"
        "Group.String() = the addressed slice, ByteRange() of the match and of every capture = API.tla's byte offsets of the rune span "
        "(each invalid byte one rune) for string inputs and the UTF-8 length of the runes for rune inputs. non-trivial = chains of >= 2 matches")
STREAM = 300
QUICK = [("wide", ["-n", "900", "-profile", "wide", "-rtl", "both", "-invalid", "0.6", "-repl", "1"]), ("frag", ["-n", "400", "-rtl", "both", "-invalid", "0.6", "-repl", "1"]),
         ("bal", ["-n", "200", "-profile", "balancing", "-rtl", "both", "-invalid", "0.6", "-repl", "1"]),
         ("sparse", ["-n", "200", "-profile", "sparse", "-rtl", "both", "-invalid", "0.6", "-repl", "1"])]
THOROUGH = [("wide%d" % i, ["-n", "2500", "-profile", "wide", "-rtl", "both", "-invalid", "0.6", "-repl", "1", "-maxlen", "14"]) for i in range(5)] + [("frag%d" % i, ["-n", "1500", "-rtl", "both", "-invalid", "0.6", "-repl", "1"]) for i in range(2)]
PROP = "C08"


def run(ctx, res):
    ctx.build()
    res.rule = RULE
    plan = QUICK if ctx.tier == "quick" else THOROUGH
    for k, (label, args) in enumerate(plan):
        apiobs.obs_api(ctx, res, args + ["-stream", str(STREAM + k)], label, PROP)
    res.assumptions += ["TLC and the CommunityModules Json/IOUtils", "Go standard library unicode tables and UTF-8 decoding (cross-checked against API.tla's decoder on every input)",
                        "outside the exact fragment the reference search table is the one recorded from FindRunesMatchStartingAt"]


def replay(ctx, res, v):
    apiobs.replay_api(ctx, res, v, PROP)


def attribute(ctx, viols, gate):
    return apiobs.attribute_api(ctx, viols, gate, PROP)

"""C09 (DESIGN.md section 6/C09): all entry points of one compiled pattern on one input are recorded in one record;
TLC accepts the record iff it is what spec/API.tla derives from one search function."""
from checks import apiobs

LEVEL = "model_checking"
RULE = ("records as in C02 with 4 replacement strings per input drawn from the $-grammar pool (valid, ambiguous and literal-$ forms: "
        "$&, ${1}x, $10, ${01}, ${nope}, $ {1}, trailing $, $`, $', $+, $_ ...) x startAt in {-1, one rune offset} x count in {-1,0,1,2}, "
        "and Split for count in {-1,0,1,2,3}. Rules replace.*: Replace = ReplaceWith(first count matches from startAt, Expand(ParseRepl(r))) "
        "for both directions, ReplaceFunc with an evaluator = the same fold; split.*: Split = SplitWith(matches, groups). The match sequence is "
        "the spec's inside the fragment and the recorded one outside. non-trivial = chains of >= 2 matches")
STREAM = 400
QUICK = [("frag", ["-n", "500", "-rtl", "both", "-repl", "4"]), ("wide", ["-n", "600", "-profile", "wide", "-rtl", "both", "-repl", "4"])]
THOROUGH = [("frag%d" % i, ["-n", "1500", "-rtl", "both", "-repl", "4"]) for i in range(3)] + [("wide%d" % i, ["-n", "2000", "-profile", "wide", "-rtl", "both", "-repl", "4", "-maxlen", "14"]) for i in range(4)]
PROP = "C09"


def run(ctx, res):
    ctx.build()
    res.rule = RULE
    plan = QUICK if ctx.tier == "quick" else THOROUGH
    for k, (label, args) in enumerate(plan):
        apiobs.obs_api(ctx, res, args + ["-stream", str(STREAM + k)], label, PROP)
    res.assumptions += ["TLC and the CommunityModules Json/IOUtils", "Go standard library unicode tables and UTF-8 decoding (cross-checked against API.tla's decoder on every input)",
                        "outside the exact fragment the reference search table is the one recorded from FindRunesMatchStartingAt"]


def replay(ctx, res, v):
    apiobs.replay_api(ctx, res, v, PROP)


def attribute(ctx, viols, gate):
    return apiobs.attribute_api(ctx, viols, gate, PROP)

"""C09 (DESIGN.md section 6/C09): all entry points of one compiled pattern on one input are recorded in one record;
TLC accepts the record iff it is what spec/API.tla derives from one search function."""
import json, os
import vlib
from checks import apiobs

LEVEL = "model_checking"
RULE = ("records as in C02 with 4 replacement strings per input drawn from the $-grammar pool (valid, ambiguous and literal-$ forms: "
        "$&, ${1}x, $10, ${01}, ${nope}, $ {1}, trailing $, $`, $', $+, $_ ...) x startAt in {-1, one rune offset} x count in {-1,0,1,2}, "
        "and Split for count in {-1,0,1,2,3}. Rules replace.*: Replace = ReplaceWith(first count matches from startAt, Expand(ParseRepl(r))) "
        "for both directions, ReplaceFunc with an evaluator = the same fold; split.*: Split = SplitWith(matches, groups). The match sequence is "
        "the spec's inside the fragment and the recorded one outside. F leg (Gen_Repl): EVERY replacement string of length <= 4 (thorough: 5, every 2nd) over the "
        "scanner's alphabet $ { } 0 1 2 3 n m & ` ' + _ x, predicted by ParseRepl/Expand in six contexts (dense, named, sparse explicit numbers, RightToLeft, RE2, "
        "ExplicitCapture) and compared with the real Replace (rule replace.language). non-trivial = chains of >= 2 matches / strings containing $")
STREAM = 400
QUICK = [("frag", ["-n", "500", "-rtl", "both", "-repl", "4"]), ("wide", ["-n", "600", "-profile", "wide", "-rtl", "both", "-repl", "4"]),
         ("sparse", ["-n", "200", "-profile", "sparse", "-rtl", "both", "-repl", "4"]), ("bal", ["-n", "200", "-profile", "balancing", "-rtl", "both", "-repl", "4"])]
THOROUGH = [("frag%d" % i, ["-n", "1500", "-rtl", "both", "-repl", "4"]) for i in range(3)] + [("wide%d" % i, ["-n", "2000", "-profile", "wide", "-rtl", "both", "-repl", "4", "-maxlen", "14"]) for i in range(4)]
PROP = "C09"


def gen_repl(ctx, res, maxlen, stride, offset, label):
    """F leg: TLC enumerates every replacement string <= maxlen over the scanner's alphabet and predicts Replace(input, r, -1, 1)
    in six contexts (dense / named / sparse numbering, RightToLeft, RE2, ExplicitCapture); the replayer compares with the real Replace"""
    ctxs = json.loads(ctx.run_vh(["repl-contexts"]).stdout)
    alpha = [ord(x) for x in "${}0123nm&`'+_x"]
    params = {"alpha": alpha, "maxlen": maxlen, "stride": stride, "offset": offset,
              "ctxs": [{k: c[k] for k in ("s", "rtl", "gnums", "names", "nums", "last", "idx", "len", "caps")} for c in ctxs]}
    ppath = os.path.join(ctx.dir, f"repl-{label}.json")
    json.dump(params, open(ppath, "w"))
    out = ctx.tlc("Gen_Repl", "Obs.cfg", env_extra={"VERIF_PARAMS": ppath}, timeout=3000)
    lines = [l for l in out["raw"].splitlines() if l.startswith('<<"R"')]
    if not lines:
        raise vlib.Broken("Gen_Repl predicted nothing")
    # binding self-test: a prediction with one output changed must be reported
    first = json.loads(json.loads(lines[0][len('<<"R", '):-2]))
    first["outs"][0] = first["outs"][0] + [33]
    gpath = os.path.join(ctx.dir, f"repl-{label}.txt")
    open(gpath, "w").write("\n".join(['<<"R", ' + json.dumps(json.dumps(first)) + '>>'] + lines) + "\n")
    d = json.loads(ctx.run_vh(["replay-repl", "-i", gpath]).stdout)
    os.remove(gpath)
    if d["strings"] != len(lines) + 1:
        raise vlib.Broken(f"replayer consumed {d['strings']} of {len(lines) + 1} predictions")
    mm = d["mismatches"]
    if not mm or not mm[0]["predicted"].endswith("!"):
        raise vlib.Broken("binding self-test failed: the replayer accepted a corrupted prediction")
    ctx.log(f"{label}: replacement strings={d['strings'] - 1} cases={d['cases']} with-dollar={d['nontrivial']} mismatches={len(mm) - 1}")
    for m in mm[1:]:
        res.violation(m)
    res.evaluations += d["cases"]
    res.nontrivial += d["nontrivial"]
    res.traces += d["strings"] - 1
    res.add_sample({"leg": "F " + label, "contexts": [c["pattern"] for c in ctxs], "alphabet": "${}0123nm&`'+_x", "maxlen": maxlen})


def run(ctx, res):
    ctx.build()
    res.rule = RULE
    plan = QUICK if ctx.tier == "quick" else THOROUGH
    if ctx.tier == "quick":
        gen_repl(ctx, res, 4, 1, 0, "repl4")
    else:
        gen_repl(ctx, res, 5, 2, ctx.seed % 2, "repl5")
    for k, (label, args) in enumerate(plan):
        apiobs.obs_api(ctx, res, args + ["-stream", str(STREAM + k)], label, PROP)
    res.assumptions += ["TLC and the CommunityModules Json/IOUtils", "Go standard library unicode tables and UTF-8 decoding (cross-checked against API.tla's decoder on every input)",
                        "outside the exact fragment the reference search table is the one recorded from FindRunesMatchStartingAt"]


def replay(ctx, res, v):
    apiobs.replay_api(ctx, res, v, PROP)


def attribute(ctx, viols, gate):
    return apiobs.attribute_api(ctx, viols, gate, PROP)

"""C10 - arbitrary patterns and inputs never panic or hang the API (DESIGN.md 6/C10, exploration level)."""
import json, os
import vlib

LEVEL = "exploration"


def run(ctx, res):
    ctx.build()
    res.rule = ("TLC enumerates every string of up to 3 (thorough: 4, strided) tokens over a 56-token alphabet built from the lexer's special cases (( ) [ ] { } | \\ ? * + ^ $ . - , : < > ' = ! # "
                "P k p digits letters \\p{ (?< (?' (?( [: \\x{ \\u \\c \\k< \\G \\b {2, -[ an astral rune, bytes 0xFF and 0x00, blanks); plus every file of the repository's 1 883-file parser "
                "corpus and every string literal of the repository's own *_test.go files (quick: every 8th, and every pattern-like literal of 25+ characters), the latter two also on subjects derived from the pattern's own words "
                "(ending on / starting with / containing its literals) and on the neighbouring literals of the same test file. Each pattern is compiled under 3 of 8 option subsets (i+x, RE2, ECMAScript, r+m, n+s, ECMAScript+Unicode, i+r+RE2) under recover; every compiled Regexp gets the "
                "whole API (bool, find, iterate with all accessors, find-all, StartingAt with 7 offsets incl. out of range, Replace/ReplaceFunc with 4 counts, Split with 5 counts, "
                "Escape/Unescape, 4 adapter methods) on hostile inputs (empty, invalid UTF-8, NUL, astral, a catastrophic one) under recover and a 20 s watchdog. Outcome classes per "
                "Gen_Tokens!ArgError: no panic, no hang, errors only timeout / stack limit / the documented argument errors exactly when predicted. "
                "distinct non-trivial = patterns that compiled under at least one option subset")
    nt = int(ctx.run_vh(["ntokens"]).stdout.strip())
    plans = [(3, 9, ctx.seed % 9)] if ctx.tier == "quick" else [(3, 1, 0), (4, 23, ctx.seed % 23)]
    for maxlen, stride, offset in plans:
        params = {"ntokens": nt, "maxlen": maxlen, "stride": stride, "offset": offset}
        ppath = os.path.join(ctx.dir, f"tok-{maxlen}.json")
        json.dump(params, open(ppath, "w"))
        out = ctx.tlc("Gen_Tokens", "Obs.cfg", env_extra={"VERIF_PARAMS": ppath}, timeout=3000)
        tpath = os.path.join(ctx.dir, f"tok-{maxlen}.txt")
        lines = [l for l in out["raw"].splitlines() if l.startswith('<<"T"')]
        open(tpath, "w").write("\n".join(lines) + "\n")
        args = ["replay-tokens", "-i", tpath]
        if maxlen == 3:
            args += ["-corpus", os.path.join(vlib.REPO, "syntax", "workdir", "corpus"), "-harvest", vlib.REPO]
            args += ["-hstride", "8", "-hoffset", str(ctx.seed % 8)] if ctx.tier == "quick" else []
        d = json.loads(ctx.run_vh(args, timeout=6000).stdout)
        os.remove(tpath)
        if d["patterns"] != len(lines) + d["corpus_files"] + d["harvested"] or (maxlen == 3 and d["harvested"] == 0) or d["compiled"] == 0 or d["argument_errors_seen"] == 0:
            raise vlib.Broken(f"replayer consumed {d['patterns']} of {len(lines)} token strings (+{d['corpus_files']} corpus files)")
        if d.get("slow_calls_not_reproduced"):
            ctx.log(f"note: {d['slow_calls_not_reproduced']} pattern(s) had a call exceeding the 20 s watchdog in the parallel run that returned normally when re-run alone (machine load; not a verdict)")
        ctx.log(f"maxlen={maxlen} stride={stride}: patterns={d['patterns']} compiled={d['compiled']} parse_errors={d['parse_errors']} calls={d['calls']} mismatches={len(d['mismatches'])}")
        for m in d["mismatches"]:
            res.violation(m)
        res.evaluations += d["calls"]
        res.nontrivial += d["compiled"]
        res.extra["patterns"] = res.extra.get("patterns", 0) + d["patterns"]
        res.extra["parse_errors"] = res.extra.get("parse_errors", 0) + d["parse_errors"]
        for s in d["samples"]:
            res.add_sample({"pattern": s})
    res.assumptions += ["exploration only: TLC enumerates token strings, it does not mutate bytes under coverage guidance", "a hang is a call that does not return within 20 s (MatchTimeout 150 ms is set on every compiled Regexp)"]


def replay(ctx, res, v):
    raise vlib.Broken("re-run the check: the token strings are enumerated deterministically")

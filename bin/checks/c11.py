"""C11 - concurrent use of a Regexp equals sequential use (DESIGN.md 6/C11)."""
import json, os, subprocess
import vlib
from checks import poolobs

LEVEL = "model_checking"


def run(ctx, res):
    ctx.build()
    race = ctx.build(race=True)
    res.rule = ("M: Pool.tla, all interleavings (see C12) - ownership, program switch, LRU; Clock.tla (C14) covers the shared clock. B: G goroutines (4..32, GOMAXPROCS varied, "
                "yield points) issue mixed calls (bool, find, iterate, find-all, replace with 20 distinct replacements, split, timed and stack-limited matches) on 8 shared "
                "Regexps and the process-wide buffer pools, built with the race detector; every result must equal the result of the same call on a fresh Regexp, a race report "
                "is a violation, and the hook events (stamped with a global sequence number after acquisition / before release) are validated against Pool.tla by Obs_Pool: "
                "a runner is never used by two goroutines at once, the cache's critical sections (held open by the hook callback until a second goroutine could have entered) are disjoint, two goroutines that start timed matches together get their own, correct deadlines (forced interleavings H7, H8, H11 of the clock model), every scan starts from the reset state, a runner returns to the pool with the full program, the cache stays "
                "bounded and consistent. evaluations = concurrent calls; traces = per-object event traces validated")
    poolobs.model(ctx, res, "Pool_quick.cfg" if ctx.tier == "quick" else "Pool.cfg")
    plans = [(8, 0, 60), (4, 2, 60), (32, 0, 25)] if ctx.tier == "quick" else [(8, 0, 300), (4, 2, 300), (32, 0, 150), (16, 1, 200), (64, 0, 60), (3, 3, 500)]
    for k, (G, procs, n) in enumerate(plans):
        env = vlib.goenv()
        env["VERIF_SEED"] = str(ctx.seed)
        env["GORACE"] = "halt_on_error=0 exitcode=66"
        p = subprocess.run([race, "run-hist", "-mode", "conc", "-g", str(G), "-procs", str(procs), "-n", str(n), "-stream", str(70 + k)],
                           env=env, capture_output=True, text=True, timeout=3000)
        if "WARNING: DATA RACE" in p.stderr:
            first = p.stderr[p.stderr.index("WARNING: DATA RACE"):][:1800]
            res.violation({"rule": "concurrent.datarace", "goroutines": G, "gomaxprocs": procs, "report": first})
        if p.returncode not in (0, 66):
            raise vlib.Broken(f"run-hist -mode conc exited {p.returncode}: {p.stderr[-1500:]}")
        d = json.loads(p.stdout)
        ctx.log(f"G={G} procs={procs}: calls={d['steps']} events={len(d['events'])} dropped={d['events_dropped']} mismatches={len(d['mismatches'])} race={'DATA RACE' in p.stderr}")
        poolobs.take_results(ctx, res, d, f"conc-G{G}", ("concurrent.",))
        poolobs.validate_events(ctx, res, d, f"conc-G{G}", ("pool.", "cache."))
        if k == 0:
            res.add_sample({"goroutines": G, "calls": d["steps"], "first_events": d["events"][:8]})
    # schedule forcing inside the critical sections that Pool.tla models as one atomic step
    for k, (G, n) in enumerate([(2, 40), (4, 30)] if ctx.tier == "quick" else [(2, 200), (4, 150), (8, 100)]):
        d = json.loads(ctx.run_vh(["run-hist", "-mode", "mutex", "-g", str(G), "-n", str(n)]).stdout)
        nev = poolobs.validate_events(ctx, res, d, f"mutex-G{G}", ("cache.",))
        ctx.log(f"mutex G={G}: replace calls={d['steps']} critical-section events={nev}")
        res.evaluations += d["steps"]
    # the shared timeout clock under concurrent callers: the real-time histories of C14 in which two goroutines meet inside
    # makeDeadline / extendClock (concurrent deadlines, and the three interleavings forced through gate hooks)
    from checks import c14
    d, viols, soft, nev = c14.histories(ctx, res, "c11")
    conc = [v for v in viols if v.get("history_id") in ("H6", "H7", "H8", "H11")]
    for v in conc:
        v = dict(v)
        v["rule"] = "concurrent.timeout"
        res.violation(v)
    ctx.log(f"clock histories with concurrent callers: {sum(1 for c in d['checks'] if c['history'].split(' ')[0] in ('H6', 'H7', 'H8', 'H11'))} checks, {len(conc)} failed")
    res.assumptions += ["TLC", "the Go race detector is the observation instrument for data races", "events are logged after acquisition / before release, so logged ownership intervals lie inside the real ones",
                        "timing-out calls use a 25 ms timeout; the shared timeout clock itself is covered by C14"]


def replay(ctx, res, v):
    raise vlib.Broken("re-run the check with the same VERIF_SEED")

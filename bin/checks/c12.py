"""C12 - results are independent of call history (DESIGN.md 6/C12)."""
import json, os
import vlib
from checks import poolobs

LEVEL = "model_checking"


def run(ctx, res):
    ctx.build()
    res.rule = ("M: Pool.tla (runner pool with the quick/full program switch, reset at scan start, LRU) is model-checked: OneOwner, IdleIsFull, CleanAtScan, RightProgram, "
                "LRUBounded/Consistent for all interleavings of 2 goroutines x 2 calls x 4 call kinds (thorough: 3 goroutines). F: Gen_Hist enumerates every ordered pair "
                "(predecessor, successor) over a reduced call alphabet (8 shared Regexps incl. balancing groups, a bool-only-eligible pattern, a stack-limited and a timing-out "
                "one x 9 entry points, inputs of 30 B / 1.2 K / 5 K / 17.6 K runes crossing the buffer size classes, 20 distinct replacements > cache size 16) and pseudo-random "
                "longer histories; each step is replayed on the shared Regexp and on a freshly compiled one and the results must be equal. B: the runner state at every scan start "
                "and every pool / cache event is validated against Pool.tla by Obs_Pool. evaluations = steps; non-trivial = steps with a predecessor")
    poolobs.model(ctx, res, "Pool_quick.cfg" if ctx.tier == "quick" else "Pool.cfg")
    params = dict(poolobs.PARAMS)
    params.update({"stride": 9 if ctx.tier == "quick" else 2, "offset": ctx.seed % 9, "nrandom": 20 if ctx.tier == "quick" else 200,
                   "randlen": 15 if ctx.tier == "quick" else 40, "seed": ctx.seed % 1000})
    ppath = os.path.join(ctx.dir, "hist-params.json")
    json.dump(params, open(ppath, "w"))
    out = ctx.tlc("Gen_Hist", "Obs.cfg", env_extra={"VERIF_PARAMS": ppath}, workers=8)
    hpath = os.path.join(ctx.dir, "hist.txt")
    lines = [l for l in out["raw"].splitlines() if l.startswith('<<"H"')]
    open(hpath, "w").write("\n".join(lines) + "\n")
    ctx.log(f"TLC enumerated {len(lines)} histories")
    p = ctx.run_vh(["run-hist", "-mode", "seq", "-i", hpath, "-n", "30" if ctx.tier == "quick" else "300", "-len", "12", "-stream", str(50 + ctx.seed % 40)], timeout=3000)
    d = json.loads(p.stdout)
    if d["error_steps"] == 0:
        raise vlib.Broken("no step ended with a timeout / stack-limit error: the histories no longer exercise the error exits")
    ctx.log(f"steps={d['steps']} error_steps={d['error_steps']} events={len(d['events'])} mismatches={len(d['mismatches'])}")
    poolobs.take_results(ctx, res, d, "seq", ("history.",))
    nev = poolobs.validate_events(ctx, res, d, "seq", ("pool.clean", "pool.code", "cache."))
    res.extra["pool_events_validated"] = nev
    res.extra["steps_ending_in_timeout_or_stack_limit"] = d["error_steps"]
    res.add_sample({"history": lines[0][:300] if lines else "", "steps": d["steps"]})
    res.add_sample({"events": d["events"][:6]})
    res.assumptions += ["TLC", "results are compared through digests (index/length of every capture of every group, lengths and tails of replaced strings, piece counts)",
                        "sync.Pool's freedom to drop idle runners is modelled by the Drop action; which runner a call gets is whatever the real pool returns"]


def replay(ctx, res, v):
    raise vlib.Broken("re-run the check with the same VERIF_SEED")

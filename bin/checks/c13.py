"""C13 - the backtracking stack limit is honoured and otherwise invisible (DESIGN.md 6/C13)."""
import json, os
import vlib

LEVEL = "model_checking"


def model_check(ctx, res):
    """M: the growth policy as a state machine; NoOverflow and CapWithinLimit for every tc, limit and push/pop schedule"""
    out = ctx.tlc("StackPolicy", "StackPolicy_loop.cfg", timeout=900, allow_violation=True)
    if "is violated" in out["raw"]:
        raise vlib.Broken("StackPolicy (policy of the current code) violates its invariants on the model: " +
                          "\n".join(l for l in out["raw"].splitlines() if l.startswith(("Error", "/\\")))[:1500])
    res.extra["policy_model_states"] = out["distinct"]
    # vacuity guard + documentation of the design flaw found by M: the single-grow policy must FAIL NoOverflow
    out2 = ctx.tlc("StackPolicy", "StackPolicy_single.cfg", timeout=900, allow_violation=True)
    if "Invariant NoOverflow is violated" not in out2["raw"]:
        raise vlib.Broken("vacuity: the single-grow policy (the defect repaired in /repo) is no longer rejected by the model")


def corrupt(rec):
    r = json.loads(json.dumps(rec))
    r["id"] = -1
    for run in r["runs"]:
        if run["lim"] > 0:
            run["maxcap"] = run["lim"] + 1
            return r
    return None


def obs_stack(ctx, res, args, label):
    path = os.path.join(ctx.dir, f"stack-{label}.ndjson")
    p = ctx.run_vh(["record-stack", "-o", path] + args, timeout=3000)
    ctx.log(label, p.stderr.strip().splitlines()[-1])
    recs = vlib.read_ndjson(path)
    if not recs:
        raise vlib.Broken("recorder produced no records")
    with open(path, "a") as f:
        f.write(json.dumps(corrupt(recs[0]), ensure_ascii=False) + "\n")
    out = ctx.tlc("Obs_Stack", "Obs.cfg", env_extra={"VERIF_OBS": path}, timeout=3000)
    tags = out["tags"]
    recsum = {r["id"]: r for r in tags.get("REC", [])}
    if len(recsum) != len(recs) + 1:
        raise vlib.Broken(f"TLC checked {len(recsum)} of {len(recs)+1} records")
    if not any(b["id"] == -1 and b["rule"] == "stack.cap" for b in tags.get("BAD", [])):
        raise vlib.Broken("binding self-test failed: a corrupted record was accepted by Obs_Stack")
    byid = {r["id"]: r for r in recs}
    drift = []
    for b in tags.get("BAD", []):
        if b["id"] == -1:
            continue
        r = byid[b["id"]]
        run = r["runs"][b["k"] - 1]
        v = {"rule": b["rule"], "pattern": r["text"], "options": r["o"], "rtl": r["rtl"], "track_count": r["tc"],
             "input": "".join(chr(x) for x in r["s"]), "limit": run["lim"], "outcome": run["outcome"], "message": run["msg"][:200],
             "initial_capacity": run["init"], "max_capacity": run["maxcap"], "growth_steps[depth,old,new]": run["events"][:8],
             "unlimited_result": r["unl"], "result": run["res"], "repeat_outcome": run["again"]}
        if b["rule"] == "POLICY":
            drift.append(v)
        else:
            res.violation(v)
    if drift and not res.violations:
        raise vlib.Broken("the recorded growth steps are not a behaviour of StackPolicy (specification/code drift): " + json.dumps(drift[0])[:800])
    res.evaluations += sum(r["runs"] for i, r in recsum.items() if i != -1)
    res.traces += sum(r["runs"] for i, r in recsum.items() if i != -1)
    res.nontrivial += sum(r["grew"] for i, r in recsum.items() if i != -1)
    res.extra["runs_hitting_the_limit"] = res.extra.get("runs_hitting_the_limit", 0) + sum(r["limited"] for i, r in recsum.items() if i != -1)
    for r in recs[:40:9]:
        runs = [x for x in r["runs"] if x["events"]][:2]
        res.add_sample({"pattern": r["text"], "track_count": r["tc"], "input": "".join(chr(x) for x in r["s"]),
                        "runs": [{"limit": x["lim"], "outcome": x["outcome"], "initial_capacity": x["init"], "growth_steps": x["events"][:5]} for x in runs]})


def run(ctx, res):
    ctx.build()
    res.rule = ("M: StackPolicy.tla (capacity, slots in use, limit, track count; actions Push/Pop/Ensure) is model-checked for tc in 1..3, 24 limits and every "
                "push/pop schedule: NoOverflow, CapWithinLimit (and the single-grow policy of the unrepaired code must fail NoOverflow - vacuity guard). "
                "B: stress patterns (lazy loops in loops, alternations in counted loops, look-arounds, nested counted loops) and deep random ASTs x inputs x "
                "L in {0..64, 100, 127..129, 255..257, 353, 511..513, 1000, 1023..1025, 4096, default, -1, and 4/8/12/16*tc +-1}, fresh Regexp per limit: "
                "no panic, result = unlimited result or ErrBacktrackingStackLimit, capacity <= L (putRunner hook), monotone in L, same call repeated and a further "
                "call on the same Regexp behave. Trace validation: the growth steps logged by VerifOnGrow must be a behaviour of StackPolicy. "
                "evaluations = runs; non-trivial = runs in which the stack grew")
    model_check(ctx, res)
    S = 1100 + ctx.seed % 83
    if ctx.tier == "quick":
        obs_stack(ctx, res, ["-n", "110", "-stream", str(S), "-rtl", "both"], "q")
    else:
        for i in range(6):
            obs_stack(ctx, res, ["-n", "400", "-stream", str(S + i), "-rtl", "both"], f"t{i}")
    res.assumptions += ["TLC and the CommunityModules Json/IOUtils", "a forward run of the program between two storage checks pushes at most 4*TrackCount slots (the interpreter's own contract, modelled as Push(a), a <= 4*tc)",
                        "capacity is observed when the runner is returned to its pool"]


def replay(ctx, res, v):
    raise vlib.Broken("re-run the check with the same VERIF_SEED: the limits are swept deterministically")

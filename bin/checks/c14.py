"""C14 - timeouts fire, only when due, and the clock cleans up (DESIGN.md 6/C14)."""
import json, os
import vlib

LEVEL = "model_checking"


def model(ctx, res):
    tier = "_quick" if ctx.tier == "quick" else ""
    out = ctx.tlc("MC_Clock", f"Clock{tier if tier else '_nostop'}.cfg".replace("Clock_nostop_quick", "Clock_quick"), timeout=7200, allow_violation=True)
    if "is violated" in out["raw"]:
        bad = [l for l in out["raw"].splitlines() if l.startswith("Error: Invariant")]
        raise vlib.Broken(f"Clock.tla (variant of the current code) violates {bad} on the model - the specification no longer describes a correct design")
    res.extra["clock_model_distinct_states"] = out["distinct"]
    # vacuity guard: the design as found (before the repair in /repo) must be rejected by the same invariant
    out2 = ctx.tlc("MC_Clock", "Clock_asfound_quick.cfg", timeout=3600, allow_violation=True)
    if "Invariant NoEarlyTimeout is violated" not in out2["raw"]:
        raise vlib.Broken("vacuity: the as-found makeDeadline no longer violates NoEarlyTimeout on the model")
    # second vacuity guard: without the test that keeps clockEnd from moving backwards a live deadline can lose its clock
    out5 = ctx.tlc("MC_Clock", "Clock_noguard_quick.cfg", timeout=3600, allow_violation=True)
    if "Invariant LiveDeadlineHasClock is violated" not in out5["raw"]:
        raise vlib.Broken("vacuity: extendClock without the monotonic test no longer violates LiveDeadlineHasClock on the model")
    # the model-level statement of the recorded finding: StopTimeoutClock during a live deadline leaves it without a clock
    out3 = ctx.tlc("MC_Clock", "Clock_stop_live_quick.cfg", timeout=3600, allow_violation=True)
    res.extra["model_stop_during_live_deadline_leaves_no_clock"] = "Invariant LiveDeadlineHasClock is violated" in out3["raw"]
    if ctx.tier != "quick":
        out4 = ctx.tlc("MC_Clock", "Clock_stop_quick.cfg", timeout=7200, allow_violation=True)
        if "is violated" in out4["raw"]:
            raise vlib.Broken("Clock.tla with a concurrent StopTimeoutClock violates a safety invariant on the model")
        res.extra["clock_model_with_stop_distinct_states"] = out4["distinct"]


def histories(ctx, res, attempt):
    args = ["run-clock"] + (["-thorough"] if ctx.tier != "quick" else [])
    p = ctx.run_vh(args, timeout=1800)
    d = json.loads(p.stdout)
    # trace validation of the clock events
    path = os.path.join(ctx.dir, f"clock-events-{attempt}.ndjson")
    ev = d["events"]
    corrupted = [e for e in ev]
    for k, e in enumerate(corrupted):
        if e["ev"] == "clockExit":      # self-test: a second start without an exit in between must be rejected
            corrupted = corrupted[:k] + corrupted[k + 1:]
            break
    vlib.write_ndjson(path, [{"id": 1, "events": ev}, {"id": -1, "events": corrupted}])
    out = ctx.tlc("Obs_Clock", "Obs.cfg", env_extra={"VERIF_OBS": path}, workers=4)
    bads = {b["id"]: b for b in out["tags"].get("BAD", [])}
    starts = [r for r in out["tags"].get("REC", []) if r["id"] == 1][0]
    if starts["starts"] >= 2 and -1 not in bads:
        raise vlib.Broken("binding self-test failed: an event trace with a dropped clockExit was accepted by Obs_Clock")
    if starts["starts"] < 2 or starts["exits"] < 1:
        raise vlib.Broken("the histories did not make the clock goroutine start, exit and restart (hooks missing?)")
    viols, soft = [], []
    if 1 in bads:
        b = bads[1]
        viols.append({"rule": "clock.trace", "event_index": b["k"], "event": b["ev"], "context": ev[max(0, b["k"] - 4):b["k"] + 2]})
    for c in d["checks"]:
        if c["ok"]:
            continue
        v = {"rule": "clock.history", "history": c["history"], "what": c["what"], "elapsed_ms": c["elapsed_ms"], "detail": c["detail"][:200],
             "history_id": c["history"].split(" ")[0]}
        (viols if c["hard"] else soft).append(v)
    return d, viols, soft, len(ev)


def run(ctx, res):
    ctx.build()
    res.rule = ("M: Clock.tla (callers stepping through makeDeadline/extendClock, the clock goroutine, StopTimeoutClock, real time with urgency) is model-checked for 2 callers "
                "(one catastrophic), 2 timed matches each, timeouts 2 and 4 ticks: NoEarlyTimeout, AtMostOneClock, RunningIffClock, ClockNeverAhead, LiveDeadlineHasClock, "
                "ClockStopsWhenDue; the as-found makeDeadline must violate NoEarlyTimeout (vacuity guard). F: histories derived from the model's behaviours are run in real "
                "time with a 1 ms period: quick / catastrophic timed matches, idle gaps shorter and longer than timeout + slop, concurrent deadlines, clock exit and restart, "
                "StopTimeoutClock between matches, the two interleavings TLC produced as counter-examples of the unrepaired design and the one of the variant whose clockEnd may move "
                "backwards (H11: a shorter deadline extends the clock after a longer one), forced through gate hooks. "
                "B: every clock event seen by the hook is validated against the model by Obs_Clock. evaluations = history checks + events; non-trivial = checks on timed catastrophic matches")
    model(ctx, res)
    viols, soft = [], []
    for attempt in range(3):
        d, viols, soft, nev = histories(ctx, res, attempt)
        res.evaluations += len(d["checks"]) + nev
        res.traces += 1
        res.nontrivial += sum(1 for c in d["checks"] if "would run much longer" in c["what"] or "half of the timeout" in c["what"])
        ctx.log(f"histories attempt {attempt + 1}: checks={len(d['checks'])} events={nev} hard_failures={len(viols)} soft_failures={len(soft)}")
        if viols or not soft:
            break
    for v in viols:
        res.violation(v)
    if not viols and soft:
        # a latency bound missed three times in a row is reported (one-sided hard bounds never are retried)
        for v in soft:
            res.violation(v)
    for c in d["checks"][:60:11]:
        res.add_sample({k: c[k] for k in ("history", "what", "ok", "elapsed_ms")})
    res.assumptions += ["TLC", "real time: hard bounds are one-sided (no timeout before d/2; no timeout on a quick match), the upper latency bound d + 20 periods + 250 ms is retried up to 3 times",
                        "the model's urgency assumption: a sleeping or starting goroutine is scheduled within one tick and critical sections are short"]


def replay(ctx, res, v):
    raise vlib.Broken("re-run the check: histories are fixed")

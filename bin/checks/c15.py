"""C15 - right-to-left mode is the mirror image of left-to-right (DESIGN.md 6/C15)."""
from checks import findobs, findgen

LEVEL = "model_checking"


def run(ctx, res):
    ctx.build()
    res.rule = ("as C01 with the RightToLeft option: RegexSem carries the direction in every frame (characters consumed "
                "leftwards, concatenations last-to-first, look-ahead still rightwards, spans normalised), FindE scans "
                "descending from the start offset. F: Gen_Find families x all inputs x all start offsets; B: random ASTs x "
                "{i,m,s} x pattern-directed inputs. non-trivial as in C01 (match does not simply end at the start offset, or has groups)")
    findgen.selftest(ctx)
    if ctx.tier == "quick":
        off = ctx.seed % 16
        findgen.gen_find(ctx, res, findgen.ALL_FAMILIES, [], "net", True, [97, 98, 10], 3, 16, off, "F-rtl")
        findgen.gen_find(ctx, res, ["atomseq", "nlend"], [], "net", True, [97, 98, 10], 4, 2, ctx.seed % 2, "F-rtl-len4")
        findobs.obs_find(ctx, res, ["-n", "1200", "-stream", "20", "-rtl", "yes", "-opts", "ims", "-re2", "0"], "B-rtl")
    else:
        findgen.gen_find(ctx, res, findgen.ALL_FAMILIES, [], "net", True, [97, 98, 10], 3, 1, 0, "F-rtl-abn3")
        findgen.gen_find(ctx, res, findgen.ALL_FAMILIES, [], "net", True, [97, 98], 5, 3, ctx.seed % 3, "F-rtl-ab5")
        findgen.gen_find(ctx, res, ["atomseq", "nlend", "atom", "nested"], [], "net", True, [97, 98, 10], 4, 1, 0, "F-rtl-len4")
        findgen.gen_find(ctx, res, findgen.ALL_FAMILIES, ["i", "m"], "net", True, [97, 66, 10], 3, 2, ctx.seed % 2, "F-rtl-im")
        findgen.gen_find(ctx, res, findgen.ALL_FAMILIES, ["s"], "net", True, [97, 98, 10], 3, 2, (ctx.seed + 1) % 2, "F-rtl-s")
        for b in range(6):
            findobs.obs_find(ctx, res, ["-n", "2500", "-stream", str(20 + b), "-rtl", "yes", "-opts", "ims", "-re2", "0"], f"B-rtl{b}")
        res.exhaustive = True
    res.assumptions += ["TLC and the CommunityModules Json/IOUtils", "Go standard library unicode tables (Unicode.tla)",
                        "the harness printer prints exactly the AST the specification interprets"]


def replay(ctx, res, v):
    findobs.replay_find(ctx, res, v)


def attribute(ctx, viols, gate):
    return findobs.attribute_find(ctx, viols, gate)

"""C16 - character-class membership is exact set algebra (DESIGN.md 6/C16)."""
import json, os
import vlib

LEVEL = "model_checking"


def corrupt(rec):
    r = json.loads(json.dumps(rec))
    r["id"] = -1
    if r["real"] and r["real"][0][1] >= 0x10FFFF:
        r["real"][0][1] -= 1   # the last rune is no longer a member
    elif r["real"]:
        r["real"][0][1] += 1   # one extra member at the end of the first range
    else:
        r["real"] = [[65, 65]]
    return r


def obs_class(ctx, res, args, label):
    path = os.path.join(ctx.dir, f"class-{label}.ndjson")
    p = ctx.run_vh(["record-class", "-o", path] + args, timeout=7200)
    ctx.log(label, p.stderr.strip().splitlines()[-1])
    recs = vlib.read_ndjson(path)
    if not recs:
        raise vlib.Broken("recorder produced no records")
    with open(path, "a") as f:
        f.write(json.dumps(corrupt(recs[0]), ensure_ascii=False) + "\n")
    out = ctx.tlc("Obs_Class", "Obs.cfg", env_extra={"VERIF_OBS": path}, timeout=7200)
    tags = out["tags"]
    recsum = {r["id"]: r for r in tags.get("REC", [])}
    if len(recsum) != len(recs) + 1:
        raise vlib.Broken(f"TLC checked {len(recsum)} of {len(recs)+1} records")
    if not any(b["id"] == -1 for b in tags.get("BAD", [])):
        raise vlib.Broken("binding self-test failed: a corrupted membership table was accepted by Obs_Class")
    byid = {r["id"]: r for r in recs}
    for b in tags.get("BAD", []):
        if b["id"] == -1:
            continue
        r = byid[b["id"]]
        res.violation({"rule": b["rule"], "class": r["text"], "ignore_case": r["ic"], "dialect": r["dia"], "ascii_bitmap": r["bitmap"],
                       "runes_disagreeing": b["n"], "first_rune": b["runes"][0], "first_rune_hex": hex(b["runes"][0]),
                       "specification_says_member": b["runes"][1], "cls": r["cls"]})
    res.evaluations += sum(r["runes"] for i, r in recsum.items() if i != -1)
    res.traces += len(recs)
    res.nontrivial += sum(1 for i, r in recsum.items() if i != -1 and 0 < r["members"] < r["runes"])
    for r in recs[:6]:
        res.add_sample({"class": r["text"], "ignore_case": r["ic"], "dialect": r["dia"], "ascii_bitmap": r["bitmap"],
                        "member_ranges_of_the_real_engine(first 6)": r["real"][:6], "runes_compared": recsum[r["id"]]["runes"],
                        "lookup_paths": [p["name"] for p in r["paths"]]}, cap=4)


def gen_class(ctx, res, stride, offset, label):
    """F leg: TLC enumerates the class vocabulary of Gen_Class.tla (ordered pairs of parts x negation x subtraction x IgnoreCase x dialect)
    and predicts the members among the domain runes; the replayer builds, compiles and probes each class on the real engine"""
    vocab = json.loads(ctx.run_vh(["class-vocab"]).stdout)
    params = {"parts": [{k: p[k] for k in ("rs", "cats", "shs", "posix", "dias")} for p in vocab["parts"]], "subs": vocab["subs"], "dom": vocab["dom"],
              "dias": vocab["dias"], "stride": stride, "offset": offset}
    ppath = os.path.join(ctx.dir, f"classvocab-{label}.json")
    json.dump(params, open(ppath, "w"))
    out = ctx.tlc("Gen_Class", "Obs.cfg", env_extra={"VERIF_PARAMS": ppath}, timeout=3000)
    lines = [l for l in out["raw"].splitlines() if l.startswith('<<"C"')]
    if not lines:
        raise vlib.Broken("Gen_Class predicted nothing")
    # binding self-test: one prediction with a member removed / added must be reported
    first = json.loads(json.loads(lines[0][len('<<"C", '):-2]))
    first["members"] = first["members"][1:] if first["members"] else [65]
    first["id"] = first["id"] + 2 * 10 ** 6     # keeps the parity (bitmap choice)
    gpath = os.path.join(ctx.dir, f"classgen-{label}.txt")
    open(gpath, "w").write("\n".join(['<<"C", ' + json.dumps(json.dumps(first)) + '>>'] + lines) + "\n")
    d = json.loads(ctx.run_vh(["replay-class", "-i", gpath]).stdout)
    os.remove(gpath)
    if d["classes"] != len(lines) + 1:
        raise vlib.Broken(f"replayer consumed {d['classes']} of {len(lines) + 1} predictions")
    orig = json.loads(json.loads(lines[0][len('<<"C", '):-2]))
    mm = d["mismatches"]
    # the corrupted copy prints the same class text as the original; with the original correct there is exactly one more
    # mismatch for that text than the original alone would give
    ctx.log(f"{label}: classes={d['classes'] - 1} probes={d['cases']} nontrivial={d['nontrivial']} mismatches={len(mm)} (incl. the self-test)")
    selfhit = False
    for m in mm:
        if not selfhit and m["rule"] == "class.membership" and m["ignore_case"] == orig["ic"] and m["dialect"] == orig["dia"] and \
                m["runes_disagreeing"] == 1 and m["class"] == class_text(vocab, orig):
            selfhit = True
            continue
        res.violation(m)
    if not selfhit:
        raise vlib.Broken("binding self-test failed: the replayer accepted a corrupted class prediction")
    res.evaluations += d["cases"]
    res.nontrivial += d["nontrivial"]
    res.traces += d["classes"] - 1
    res.add_sample({"leg": "F " + label, "parts": [p["text"] for p in vocab["parts"]], "domain_runes": d["domain"], "classes": d["classes"] - 1}, cap=7)


def gen_fold(ctx, res, stride, offset, label):
    """F leg for the IgnoreCase closure of ranges: Gen_Fold predicts [r-(r+1)] and [(r-1)-r] for every rune r with a case-fold orbit"""
    ppath = os.path.join(ctx.dir, f"fold-{label}.json")
    json.dump({"stride": stride, "offset": offset}, open(ppath, "w"))
    out = ctx.tlc("Gen_Fold", "Obs.cfg", env_extra={"VERIF_PARAMS": ppath}, timeout=3000)
    lines = [l for l in out["raw"].splitlines() if l.startswith('<<"F"')]
    if not lines:
        raise vlib.Broken("Gen_Fold predicted nothing")
    first = json.loads(json.loads(lines[0][len('<<"F", '):-2]))
    first["members"] = [x for x in first["dom"] if x not in first["members"]][:1] + first["members"]    # self-test: one wrong member
    gpath = os.path.join(ctx.dir, f"foldgen-{label}.txt")
    open(gpath, "w").write("\n".join(['<<"F", ' + json.dumps(json.dumps(first)) + '>>'] + lines) + "\n")
    d = json.loads(ctx.run_vh(["replay-fold", "-i", gpath]).stdout)
    os.remove(gpath)
    if d["classes"] != len(lines) + 1:
        raise vlib.Broken(f"replayer consumed {d['classes']} of {len(lines) + 1} predictions")
    mm = d["mismatches"]
    want = "[\\x{%X}-\\x{%X}]" % (first["lo"], first["hi"])
    hit = [m for m in mm if m["class"] == want]
    if not hit:
        raise vlib.Broken("binding self-test failed: the replayer accepted a corrupted range prediction")
    ctx.log(f"{label}: two-rune ranges={d['classes'] - 1} probes={d['cases']} mismatches={len(mm) - 1}")
    seen_self = False
    for m in mm:
        if not seen_self and m["class"] == want:
            seen_self = True
            continue
        res.violation(m)
    res.evaluations += d["cases"]
    res.traces += d["classes"] - 1


def class_text(vocab, r):
    t = "[" + ("^" if r["neg"] else "") + vocab["parts"][r["p1"] - 1]["text"]
    if r["p2"] > 0:
        t += vocab["parts"][r["p2"] - 1]["text"]
    if r["sub"] > 0:
        t += "-" + vocab["subtexts"][r["sub"] - 1]
    return t + "]"


def run(ctx, res):
    ctx.build()
    res.rule = ("F: Gen_Class enumerates EVERY class built from an ordered pair (or one) of 22 parts (letters with unusual case orbits a k s U+0130 U+212A U+03A3 U+01C5, A-Z, the two "
                "blocks that leave exactly A-Z out, \\w \\W \\d \\S \\s, \\p{Lu} \\P{Lu} \\p{Ll} \\P{Lt}, [:upper:] [:^upper:] [:^alpha:]) x negation x {no subtraction, [a], [A-Z], [k], [\\w], [^a]} x IgnoreCase x "
                "{default, RE2, ECMAScript} (27 024 classes; quick tier: every second one) and predicts the members among 185 domain runes; the replayer prints the parts in the given order and probes the real engine "
                "(ASCII bitmap on/off alternating). F2: Gen_Fold predicts, for every rune r with a simple case-fold orbit (2 878), the IgnoreCase classes [r-(r+1)] and [(r-1)-r] "
                "on a domain of the range, its orbits, their neighbours and the fixed-offset images; the replayer probes the real engine (the range path of the class compiler). B: class expressions from a random class grammar (single characters incl. escapes, ASCII/Latin/Greek/BMP/astral ranges, \\d\\D\\w\\W\\s\\S, "
                "\\p{..}/\\P{..} over 29 categories and scripts, POSIX names in RE2 mode, negation, nested subtraction) x IgnoreCase x {default, RE2, ECMAScript} "
                "x ASCII bitmap on/off. The real membership is recorded for ALL 1 114 112 runes (\\A[..]\\z on one rune) and, on a sample domain, for 6 more "
                "lookup paths (parsed CharSet.CharIn, loop, lazy loop, prefix-set search, after a loop, alternation, right-to-left). TLC compares with "
                "CharClass!InClass on every rune <= U+024F and on every breakpoint +-1 of both interval lists (piecewise constancy makes that agreement "
                "everywhere); thorough: also pointwise over whole ranges. evaluations = (class, rune) pairs compared by TLC; non-trivial = classes that are neither empty nor full on the compared domain")
    S = 800 + (ctx.seed % 50) * 3
    if ctx.tier == "quick":
        gen_class(ctx, res, 2, ctx.seed % 2, "vocab-half")
        gen_fold(ctx, res, 2, ctx.seed % 2, "fold-half")
    else:
        gen_class(ctx, res, 1, 0, "vocab")
        gen_fold(ctx, res, 1, 0, "fold")
    if ctx.tier == "quick":
        obs_class(ctx, res, ["-n", "200", "-stream", str(S)], "q")
    else:
        for i in range(4):
            obs_class(ctx, res, ["-n", "1000", "-stream", str(S + i)], f"t{i}")
        obs_class(ctx, res, ["-n", "48", "-stream", str(S + 9), "-full", "1114112"], "full")
        res.exhaustive = True
    res.assumptions += ["TLC and the CommunityModules Json/IOUtils", "Go standard library unicode tables (Unicode.tla) as the meaning of categories, scripts, White_Space and simple case mappings",
                        "under IgnoreCase the compared domain is ASCII plus runes whose fold orbit is one upper/lower pair (as the property states)"]


def replay(ctx, res, v):
    ctx.build()
    case = [{"cls": v["cls"], "ic": v["ignore_case"], "dia": v["dialect"], "bitmap": v["ascii_bitmap"]}]
    cpath = os.path.join(ctx.dir, "case.json")
    json.dump(case, open(cpath, "w"))
    path = os.path.join(ctx.dir, "replay.ndjson")
    ctx.run_vh(["record-class", "-case", cpath, "-o", path])
    out = ctx.tlc("Obs_Class", "Obs.cfg", env_extra={"VERIF_OBS": path})
    for b in out["tags"].get("BAD", []):
        res.violation({"rule": b["rule"], "class": v["class"], "first_rune": b["runes"][0]})

"""C16 - character-class membership is exact set algebra (DESIGN.md 6/C16)."""
import json, os
import vlib

LEVEL = "model_checking"


def corrupt(rec):
    r = json.loads(json.dumps(rec))
    r["id"] = -1
    if r["real"]:
        r["real"][0][1] += 1   # one extra member at the end of the first range
    else:
        r["real"] = [[65, 65]]
    return r


def obs_class(ctx, res, args, label):
    path = os.path.join(ctx.dir, f"class-{label}.ndjson")
    p = ctx.run_vh(["record-class", "-o", path] + args, timeout=7200)
    ctx.log(label, p.stderr.strip().splitlines()[-1])
    recs = vlib.read_ndjson(path)
    if not recs:
        raise vlib.Broken("recorder produced no records")
    with open(path, "a") as f:
        f.write(json.dumps(corrupt(recs[0]), ensure_ascii=False) + "\n")
    out = ctx.tlc("Obs_Class", "Obs.cfg", env_extra={"VERIF_OBS": path}, timeout=7200)
    tags = out["tags"]
    recsum = {r["id"]: r for r in tags.get("REC", [])}
    if len(recsum) != len(recs) + 1:
        raise vlib.Broken(f"TLC checked {len(recsum)} of {len(recs)+1} records")
    if not any(b["id"] == -1 for b in tags.get("BAD", [])):
        raise vlib.Broken("binding self-test failed: a corrupted membership table was accepted by Obs_Class")
    byid = {r["id"]: r for r in recs}
    for b in tags.get("BAD", []):
        if b["id"] == -1:
            continue
        r = byid[b["id"]]
        res.violation({"rule": b["rule"], "class": r["text"], "ignore_case": r["ic"], "dialect": r["dia"], "ascii_bitmap": r["bitmap"],
                       "runes_disagreeing": b["n"], "first_rune": b["runes"][0], "first_rune_hex": hex(b["runes"][0]),
                       "specification_says_member": b["runes"][1], "cls": r["cls"]})
    res.evaluations += sum(r["runes"] for i, r in recsum.items() if i != -1)
    res.traces += len(recs)
    res.nontrivial += sum(1 for i, r in recsum.items() if i != -1 and 0 < r["members"] < r["runes"])
    for r in recs[:6]:
        res.add_sample({"class": r["text"], "ignore_case": r["ic"], "dialect": r["dia"], "ascii_bitmap": r["bitmap"],
                        "member_ranges_of_the_real_engine(first 6)": r["real"][:6], "runes_compared": recsum[r["id"]]["runes"],
                        "lookup_paths": [p["name"] for p in r["paths"]]}, cap=4)


def run(ctx, res):
    ctx.build()
    res.rule = ("class expressions from a random class grammar (single characters incl. escapes, ASCII/Latin/Greek/BMP/astral ranges, \\d\\D\\w\\W\\s\\S, "
                "\\p{..}/\\P{..} over 29 categories and scripts, POSIX names in RE2 mode, negation, nested subtraction) x IgnoreCase x {default, RE2, ECMAScript} "
                "x ASCII bitmap on/off. The real membership is recorded for ALL 1 114 112 runes (\\A[..]\\z on one rune) and, on a sample domain, for 6 more "
                "lookup paths (parsed CharSet.CharIn, loop, lazy loop, prefix-set search, after a loop, alternation, right-to-left). TLC compares with "
                "CharClass!InClass on every rune <= U+024F and on every breakpoint +-1 of both interval lists (piecewise constancy makes that agreement "
                "everywhere); thorough: also pointwise over whole ranges. evaluations = (class, rune) pairs compared by TLC; non-trivial = classes that are neither empty nor full on the compared domain")
    S = 800 + (ctx.seed % 50) * 3
    if ctx.tier == "quick":
        obs_class(ctx, res, ["-n", "260", "-stream", str(S)], "q")
    else:
        for i in range(4):
            obs_class(ctx, res, ["-n", "1000", "-stream", str(S + i)], f"t{i}")
        obs_class(ctx, res, ["-n", "48", "-stream", str(S + 9), "-full", "1114112"], "full")
        res.exhaustive = True
    res.assumptions += ["TLC and the CommunityModules Json/IOUtils", "Go standard library unicode tables (Unicode.tla) as the meaning of categories, scripts, White_Space and simple case mappings",
                        "under IgnoreCase the compared domain is ASCII plus runes whose fold orbit is one upper/lower pair (as the property states)"]


def replay(ctx, res, v):
    ctx.build()
    case = [{"cls": v["cls"], "ic": v["ignore_case"], "dia": v["dialect"], "bitmap": v["ascii_bitmap"]}]
    cpath = os.path.join(ctx.dir, "case.json")
    json.dump(case, open(cpath, "w"))
    path = os.path.join(ctx.dir, "replay.ndjson")
    ctx.run_vh(["record-class", "-case", cpath, "-o", path])
    out = ctx.tlc("Obs_Class", "Obs.cfg", env_extra={"VERIF_OBS": path})
    for b in out["tags"].get("BAD", []):
        res.violation({"rule": b["rule"], "class": v["class"], "first_rune": b["runes"][0]})

"""C17 - group numbers and names form one consistent map (DESIGN.md 6/C17)."""
import json, os
import vlib

LEVEL = "model_checking"


def run(ctx, res):
    ctx.build()
    res.rule = ("F: Groups!Numbering is a pure function; TLC enumerates EVERY sequence of group declarations up to the length bound over the vocabulary "
                "{unnamed, named a, named b, numbered 2, numbered 3, numbered 5, unnamed under (?n:), named a under (?n:)} x {default, MaintainCaptureOrder} and predicts numbers and "
                "names; the replayer builds the pattern (i-th declaration matches the i-th letter; RE2 and ECMAScript spellings where they apply) and compares "
                "GetGroupNumbers, GetGroupNames, both lookups, Match.Groups() order/names/captures, GroupByName/Number, back-references by number and by name, "
                "$n / ${n} / ${name} in Replace. evaluations = individual comparisons; non-trivial = declaration sequences mixing at least two kinds")
    maxlen = 4 if ctx.tier == "quick" else 5
    params = {"maxlen": maxlen, "stride": 1, "offset": 0}
    ppath = os.path.join(ctx.dir, "params.json")
    json.dump(params, open(ppath, "w"))
    out = ctx.tlc("Gen_Groups", "Obs.cfg", env_extra={"VERIF_PARAMS": ppath}, timeout=3000)
    gpath = os.path.join(ctx.dir, "gen.txt")
    lines = [l for l in out["raw"].splitlines() if l.startswith('<<"G"')]
    # binding self-test: one prediction with a wrong number list must be reported
    first = json.loads(json.loads(lines[0][len('<<"G", '):-2]))
    first["numbers"] = first["numbers"] + [9]
    first["names"] = first["names"] + ["9"]
    first["id"] = -1
    open(gpath, "w").write("\n".join(['<<"G", ' + json.dumps(json.dumps(first)) + '>>'] + lines) + "\n")
    d = json.loads(ctx.run_vh(["replay-groups", "-i", gpath]).stdout)
    os.remove(gpath)
    self_hit = [m for m in d["mismatches"] if m["numbers"][-1:] == [9] and m["names"][-1:] == ["9"] and len(m["numbers"]) == len(first["numbers"])]
    if not self_hit:
        raise vlib.Broken("binding self-test failed: the replayer accepted a corrupted prediction")
    npred = len(lines)
    ctx.log(f"predicted={npred} cases={d['cases']} checks={d['checks']} mismatches={len(d['mismatches'])}")
    for m in d["mismatches"]:
        if m in self_hit:
            continue
        m["has_explicit_number"] = any(x["kind"] == "k" for x in m["ds"])
        res.violation(m)
    res.evaluations += d["checks"]
    res.nontrivial += d["nontrivial"]
    res.traces += d["cases"]
    res.exhaustive = True
    for s in d["samples"]:
        res.add_sample(s)
    res.assumptions += ["TLC and the CommunityModules Json/IOUtils", "declaration sequences up to length %d over an 8-element vocabulary (the explicit numbers 2 and 3 are adjacent, 5 leaves a gap)" % maxlen]


def replay(ctx, res, v):
    ctx.build()
    rec = {"len": len(v["ds"]), "id": 0, "mode": v["mode"], "ds": v["ds"], "num": v.get("num", []), "numbers": v["numbers"], "names": v["names"], "consistent": True}
    raise vlib.Broken("replay of a C17 case: re-run the check (the domain is enumerated exhaustively and deterministically)")

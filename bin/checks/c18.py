"""C18 - inline options equal compile-time options (DESIGN.md 6/C18)."""
import itertools
from checks import findobs, findgen

LEVEL = "model_checking"
LETTERS = ["i", "m", "s", "n", "x"]
FAMS = ["seq2", "alt2", "grpq", "ref", "named", "look", "anchor", "anchor2", "cond", "atom", "opti", "optm", "opts", "nested"]


def subsets():
    out = []
    for r in range(1, 6):
        out += [list(c) for c in itertools.combinations(LETTERS, r)]
    return out   # the 31 non-empty subsets (the empty one is C01)


def run(ctx, res):
    ctx.build()
    res.rule = ("for an option set O the same family pattern P is predicted and replayed in six spellings: compile option O, leading (?O)P, wrapping (?O:P), "
                "(?-O:P)(?O:P) compiled with O (scoping of (?-O)), (?:(?O)P) (an option item inside a group) and (?:(?O)P)P (its scope ends with the group). M: on the specification Find(Elab(P,O)) = Find(Elab((?O)P, {})) = Find(Elab((?O:P), {})) for every input "
                "and start offset (a difference is reported as a broken specification). F: every spelling's prediction is replayed into the real engine (index, length, "
                "capture lists; n changes the numbering, x the printer). B: random ASTs with the drawn options moved into (?O) / (?O:..) / switched off again in a trailing "
                "(?-O:..). Alphabet a, B, newline so that i, m and s matter. non-trivial as in C01")
    findgen.selftest(ctx)
    subs = subsets()
    alpha = [97, 66, 10]
    def variants(O):
        return [{"spelling": "plain", "so": [], "o": O}, {"spelling": "optset", "so": O, "o": []},
                {"spelling": "optgroup", "so": O, "o": []}, {"spelling": "nested", "so": O, "o": O},
                {"spelling": "inner", "so": O, "o": []}, {"spelling": "innertail", "so": O, "o": []}]
    if ctx.tier == "quick":
        k = ctx.seed % len(subs)
        vs = variants(subs[k]) + variants(subs[(k * 7 + 11) % len(subs)]) + variants(["i", "m", "s", "n", "x"])
        findgen.gen_find(ctx, res, FAMS, [], "net", False, alpha, 3, 96, ctx.seed % 96, "F-spellings", variants=vs)
        findobs.obs_find(ctx, res, ["-n", "700", "-stream", "41", "-spelling", "-opts", "imsnx", "-re2", "0"], "B-spelling")
    else:
        for i in range(0, len(subs), 4):
            vs = []
            for O in subs[i:i + 4]:
                vs += variants(O)
            findgen.gen_find(ctx, res, FAMS, [], "net", False, alpha, 3, 36, (ctx.seed + i) % 36, f"F-spellings{i}", variants=vs)
        for b in range(4):
            findobs.obs_find(ctx, res, ["-n", "2500", "-stream", str(41 + b), "-spelling", "-opts", "imsnx", "-re2", "0"], f"B-spelling{b}")
        res.exhaustive = True
    res.assumptions += ["TLC and the CommunityModules Json/IOUtils", "Options!Elab is the specification of the option stack; RightToLeft, ECMAScript and RE2 are top-level-only options and are not spelled inline"]


def replay(ctx, res, v):
    findobs.replay_find(ctx, res, v)


def attribute(ctx, viols, gate):
    return findobs.attribute_find(ctx, viols, gate)

"""C19 - Escape and Unescape are inverse and Escape yields a literal (DESIGN.md 6/C19)."""
import json, os
import vlib

LEVEL = "model_checking"


def corrupt(recs):
    for rec in recs:
        if len(rec["s"]) >= 1 and rec["table"] and rec["table"][0]["nb"]:
            r = json.loads(json.dumps(rec))
            r["id"] = -1
            r["e"] = r["e"] + [97]            # Escape(s) with a stray character: its meaning is no longer s
            r["table"][0]["nb"][0]["matched"] = True
            return r
    return None


def obs_escape(ctx, res, args, label):
    path = os.path.join(ctx.dir, f"esc-{label}.ndjson")
    p = ctx.run_vh(["record-escape", "-o", path] + args)
    ctx.log(label, p.stderr.strip().splitlines()[-1])
    recs = vlib.read_ndjson(path)
    bad_self = corrupt(recs)
    if bad_self is None:
        raise vlib.Broken("no record usable for the binding self-test")
    with open(path, "a") as f:
        f.write(json.dumps(bad_self, ensure_ascii=False) + "\n")
    out = ctx.tlc("Obs_Escape", "Obs.cfg", env_extra={"VERIF_OBS": path}, timeout=3000)
    tags = out["tags"]
    recsum = {r["id"]: r for r in tags.get("REC", [])}
    if len(recsum) != len(recs) + 1:
        raise vlib.Broken(f"TLC checked {len(recsum)} of {len(recs)+1} records")
    selfrules = {b["rule"] for b in tags.get("BAD", []) if b["id"] == -1}
    if "escape.meaning" not in selfrules or not any(r.startswith("escape.literal.other") for r in selfrules):
        raise vlib.Broken("binding self-test failed: a corrupted record was accepted by Obs_Escape")
    byid = {r["id"]: r for r in recs}
    for b in tags.get("BAD", []):
        if b["id"] == -1:
            continue
        r = byid[b["id"]]
        res.violation({"rule": b["rule"], "s": r["s"], "s_text": "".join(chr(x) for x in r["s"]), "escaped": "".join(chr(x) for x in r["e"]),
                       "unescaped": "".join(chr(x) for x in r["u"]), "unescape_error": r["uerr"],
                       "rows": [{k: row[k] for k in ("o", "compiled", "self", "err")} for row in r["table"]]})
    res.evaluations += sum(r["rows"] for i, r in recsum.items() if i != -1)
    res.traces += len(recs)
    res.nontrivial += sum(1 for r in recs if r["e"] != r["s"])
    for r in recs[5:400:97]:
        res.add_sample({"s": r["s"], "Escape(s)": "".join(chr(x) for x in r["e"]), "Unescape(Escape(s))": r["u"],
                        "option_sets": [row["o"] for row in r["table"]], "neighbours_tried": len(r["table"][0]["nb"]) if r["table"] else 0})


def run(ctx, res):
    ctx.build()
    res.rule = ("every string up to the length bound over a 59-rune alphabet with one representative per branch (metacharacters, space, #, control characters, DEL, U+0085, "
                "U+00A0, unassigned U+0378, U+200B, U+2028, U+FFFD, U+FFFF, combining, astral non-printables U+1D173 / U+E0001 / U+10FFFF, letters) plus random strings "
                "over all of Unicode. Recorded: e = Escape(s), Unescape(e), and for 10 option sets (none, x, m, s, n, xmsn, RE2, RightToLeft, i, ix) whether \\A(?:e)\\z compiles, "
                "matches s and which one-edit neighbours (insert, delete, substitute, case flip, duplicate) it matches. TLC checks Escape!Meaning(e) = s, the round trip and the "
                "match table. evaluations = (string, option set) rows; non-trivial = strings that Escape changes")
    S = 900 + ctx.seed % 97
    if ctx.tier == "quick":
        obs_escape(ctx, res, ["-exhaustive", "2", "-random", "1500", "-stream", str(S)], "q")
    else:
        obs_escape(ctx, res, ["-exhaustive", "3", "-stride", "5", "-random", "5000", "-stream", str(S)], "t3")
        obs_escape(ctx, res, ["-exhaustive", "2", "-random", "20000", "-stream", str(S + 1)], "t2")
    res.exhaustive = True
    res.assumptions += ["TLC and the CommunityModules Json/IOUtils", "IgnoreCase rows accept exactly the strings equal to s up to simple case mapping"]


def replay(ctx, res, v):
    raise vlib.Broken("re-run the check: the exhaustive part of the domain is enumerated deterministically")

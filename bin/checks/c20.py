"""C20 - case-insensitive matching ignores case (DESIGN.md 6/C20)."""
import json, os
import vlib
from checks import findobs

LEVEL = "model_checking"


def corrupt(recs):
    for rec in recs:
        if rec["iv"] and rec["base"]["ok"]:
            r = json.loads(json.dumps(rec))
            r["id"] = -1
            r["iv"][0]["res"] = {"ok": False, "idx": 0, "len": 0, "caps": r["base"]["caps"]}
            return r
    return None


def obs_case(ctx, res, args, label):
    path = os.path.join(ctx.dir, f"case-{label}.ndjson")
    p = ctx.run_vh(["record-case", "-o", path] + args)
    ctx.log(label, p.stderr.strip().splitlines()[-1])
    recs = vlib.read_ndjson(path)
    bad_self = corrupt(recs)
    if bad_self is None:
        raise vlib.Broken("no record usable for the binding self-test")
    with open(path, "a") as f:
        f.write(json.dumps(bad_self, ensure_ascii=False) + "\n")
    tags, dropped = ctx.tlc_obs("Obs_Case", path, [r["id"] for r in recs] + [-1], label)
    if tags.get("WFERR"):
        raise vlib.Broken(f"generator produced ill-formed tables: {tags['WFERR'][:2]}")
    recsum = {r["id"]: r for r in tags.get("REC", [])}
    if len(recsum) + len(dropped) != len(recs) + 1:
        raise vlib.Broken(f"TLC checked {len(recsum)} of {len(recs)+1} records")
    if not any(b["id"] == -1 and b["rule"] == "case.input-flip" for b in tags.get("BAD", [])):
        raise vlib.Broken("binding self-test failed: a corrupted family was accepted by Obs_Case")
    byid = {r["id"]: r for r in recs}
    for b in tags.get("BAD", []):
        if b["id"] == -1:
            continue
        r = byid[b["id"]]
        if b["rule"] == "SPECVARIANT":
            raise vlib.Broken(f"the specification itself is not invariant under case flips for {r['text']!r} (model-level check)")
        v = {"rule": b["rule"], "pattern": r["text"], "options": r["o"], "rtl": r["rtl"], "find_mode": r["mode"],
             "input_text": "".join(chr(x) for x in r["s"]), "base_result": r["base"],
             # what the attribution of gate-identified findings needs (same vocabulary as the find legs)
             "p": r["p"], "dialect": "net", "input": r["s"], "start": len(r["s"]) if r["rtl"] else 0}
        if b["rule"] == "case.input-flip":
            iv = r["iv"][b["k"] - 1]
            v.update({"flipped_input": "".join(chr(x) for x in iv["s"]), "flipped_result": iv["res"]})
        elif b["rule"] == "case.pattern-flip":
            pv = r["pv"][b["k"] - 1]
            v.update({"flipped_pattern": pv["text"], "flipped_result": pv["res"], "flipped_compile_error": pv["err"]})
        res.violation(v)
    res.evaluations += sum(r["members"] for i, r in recsum.items() if i != -1)
    res.traces += len(recs)
    res.nontrivial += sum(1 for i, r in recsum.items() if i != -1 and r["matched"] and r["members"] >= 3)
    for r in recs[3:300:71]:
        res.add_sample({"pattern": r["text"], "options": r["o"], "input": "".join(chr(x) for x in r["s"]), "base": r["base"],
                        "flipped_inputs": ["".join(chr(x) for x in iv["s"]) for iv in r["iv"][:3]], "flipped_patterns": [pv["text"] for pv in r["pv"][:2]]})


def run(ctx, res):
    ctx.build()
    res.rule = ("metamorphic families under IgnoreCase: pattern (random fragment ASTs with literals, classes, ranges, back-references, look-arounds; accel shapes that trigger "
                "the prefix-search fast paths; hand-written templates with class subtraction and negated classes) x input over ASCII, Latin-1, Greek and Cyrillic simple-pair "
                "letters; variants: every single cased input position flipped, all flipped, random subsets; pattern literals / class members / range endpoints flipped (one, all). "
                "TLC (Obs_Case) requires identical outcome across the family, = RegexSem inside the fragment, and (M) the prediction itself to be invariant. "
                "evaluations = family members run; non-trivial = families whose base input matches")
    S = 1000 + ctx.seed % 89
    if ctx.tier == "quick":
        obs_case(ctx, res, ["-n", "450", "-stream", str(S), "-rtl", "both"], "q")
    else:
        for i in range(6):
            obs_case(ctx, res, ["-n", "1500", "-stream", str(S + i), "-rtl", "both", "-maxlen", "12"], f"t{i}")
    res.assumptions += ["TLC and the CommunityModules Json/IOUtils", "only letters whose simple case-fold orbit is one upper/lower pair are flipped (k, s, sigma, mu ... are excluded)"]


def replay(ctx, res, v):
    raise vlib.Broken("re-run the check with the same VERIF_SEED: families are generated deterministically")


def attribute(ctx, viols, gate):
    """case.spec (the real outcome differs from RegexSem's) can be an occurrence of a finding that one rewrite gate isolates"""
    return findobs.attribute_find(ctx, viols, gate, rules=("case.spec",))

"""Shared leg: forward conformance (spec -> code). TLC enumerates the bounded grammar of spec/Gen_Find.tla and
predicts every result; the harness replays the predictions into the real engine."""
import json, os
import vlib

ALL_FAMILIES = ["seq2", "seq3", "alt2", "altseq", "seqalt", "grpq", "grpq2", "ncgq", "ref", "refq", "named", "look", "look2",
                "lookg", "atom", "anchor", "anchor2", "cond", "condx", "nested", "opti", "optm", "opts", "body3", "body3g", "nlend", "atomseq", "altcat"]


def gen_find(ctx, res, families, o, dia, rtl, alpha, maxlen, stride, offset, label, timeout=3000, variants=None):
    """variants: list of {spelling, so, o}; default = the plain spelling compiled with o"""
    variants = variants or [{"spelling": "plain", "so": [], "o": list(o)}]
    params = {"families": families, "dia": dia, "rtl": rtl, "alpha": alpha, "maxlen": maxlen,
              "stride": stride, "offset": offset, "variants": variants, "nonnull": False}
    ppath = os.path.join(ctx.dir, f"params-{label}.json")
    json.dump(params, open(ppath, "w"))
    out = ctx.tlc("Gen_Find", "Obs.cfg", env_extra={"VERIF_PARAMS": ppath}, timeout=timeout)
    if out["tags"].get("WFERR"):
        raise vlib.Broken("Gen_Find produced an ill-formed table")
    if out["tags"].get("SPECDIFF"):
        raise vlib.Broken(f"the specification itself distinguishes the inline spelling from the compile-time options: {out['tags']['SPECDIFF'][:3]}")
    gpath = os.path.join(ctx.dir, f"gen-{label}.txt")
    open(gpath, "w").write(out["raw"])
    args = ["replay-find", "-i", gpath, "-dia", dia]
    if rtl:
        args.append("-rtl")
    p = ctx.run_vh(args)
    os.remove(gpath)
    d = json.loads(p.stdout)
    npred = len(out["tags"].get("P", []))
    if d["patterns"] + d["compile_errors"] != npred or npred == 0:
        raise vlib.Broken(f"replayer consumed {d['patterns']} of {npred} predicted patterns")
    ctx.log(f"{label}: patterns={d['patterns']} cases={d['cases']} matches={d['matches']} nontrivial={d['nontrivial']} "
            f"skipped={d['skipped_outside_fragment']} mismatches={len(d['mismatches'])}")
    for m in d["mismatches"]:
        res.violation(m)
    res.evaluations += d["cases"]
    res.nontrivial += d["nontrivial"]
    res.traces += d["patterns"]
    for s in d["samples"][:2]:
        res.add_sample({"leg": "F " + label, **s})
    return d


def selftest(ctx):
    """binding self-test for the F direction: a prediction with one field changed must be reported by the replayer"""
    rec = {"pid": 1, "fam": "selftest",
           "p": [{"op": "chr", "rs": [[97, 97]], "neg": False, "cls": "", "min": 0, "max": 0, "lazy": False, "kids": [], "g": 0,
                  "nm": "", "on": [], "off": []}],
           "res": [[[]], [[0, 2, []], []]]}   # wrong: predicts length 2 for `a` on "a"
    lines = ['<<"INPUTS", ' + json.dumps(json.dumps({"n": 1, "inputs": [[], [97]]})) + '>>',
             '<<"P", ' + json.dumps(json.dumps(rec)) + '>>']
    path = os.path.join(ctx.dir, "selftest-gen.txt")
    open(path, "w").write("\n".join(lines) + "\n")
    d = json.loads(ctx.run_vh(["replay-find", "-i", path]).stdout)
    if len(d["mismatches"]) != 1:
        raise vlib.Broken("binding self-test failed: the replayer accepted a corrupted prediction")

"""Shared leg: backward conformance of single-search results against RegexSem (spec/Obs_Find.tla)."""
import json, os
import vlib


def corrupt(rec):
    """self-test of the binding: a copy of a record with one recorded field changed must be rejected"""
    r = json.loads(json.dumps(rec))
    r["id"] = -1
    for c in r["cases"]:
        for res in c["res"]:
            if res["ok"]:
                res["len"] += 1
                return r
    for c in r["cases"]:
        for res in c["res"]:
            res["ok"], res["idx"], res["len"] = True, 0, 0
            return r
    return None


def obs_find(ctx, res, rec_args, label, prop_rule="find.mismatch", timeout=3000):
    path = os.path.join(ctx.dir, f"find-{label}.ndjson")
    p = ctx.run_vh(["record-find", "-o", path] + rec_args)
    ctx.log(label, p.stderr.strip().splitlines()[-1])
    recs = vlib.read_ndjson(path)
    if not recs:
        raise vlib.Broken("recorder produced no records")
    bad_self = None
    for r in recs:
        if r["cases"]:
            bad_self = corrupt(r)
            if bad_self:
                break
    if bad_self is None:
        raise vlib.Broken("no record usable for the binding self-test")
    with open(path, "a") as f:
        f.write(json.dumps(bad_self, ensure_ascii=False) + "\n")
    tags, dropped = ctx.tlc_obs("Obs_Find", path, [r["id"] for r in recs] + [-1], label)
    if tags.get("WFERR"):
        raise vlib.Broken(f"generator produced ill-formed tables: {tags['WFERR'][:2]}")
    recsum = {r["id"]: r for r in tags.get("REC", [])}
    if len(recsum) + len(dropped) != len(recs) + 1:
        raise vlib.Broken(f"TLC checked {len(recsum)} of {len(recs)+1} records")
    if not any(b["id"] == -1 for b in tags.get("BAD", [])):
        raise vlib.Broken("binding self-test failed: a corrupted record was accepted by Obs_Find")
    byid = {r["id"]: r for r in recs}
    for b in tags.get("BAD", []):
        if b["id"] == -1:
            continue
        r = byid[b["id"]]
        rule = prop_rule
        if isinstance(b["real"], dict) and str(b["real"].get("err", "")).startswith("PANIC"):
            rule = "panic"
        res.violation({"rule": rule, "pattern": b["text"], "options": b["o"], "dialect": b["dia"], "rtl": b["rtl"],
                       "input": b["s"], "input_text": "".join(chr(c) for c in b["s"]), "start": b["start"],
                       "predicted": b["pred"], "real": b["real"], "p": r["p"]})
    n_cases = sum(r["cases"] for i, r in recsum.items() if i != -1)
    res.evaluations += n_cases
    res.traces += len(recs)
    res.nontrivial += sum(r["nontrivial"] for i, r in recsum.items() if i != -1)
    for r in recs[:3]:
        if r["cases"]:
            c = r["cases"][0]
            res.add_sample({"pattern": r["text"], "options": r["o"], "dialect": r["dia"], "rtl": r["rtl"],
                            "input": "".join(chr(x) for x in c["s"]), "results_by_start_offset": c["res"][:3]})
    return len(recs), n_cases


def replay_find(ctx, res, v):
    """re-executes one recorded case against the current tree and lets TLC judge it again"""
    ctx.build()
    case = {"p": v["p"], "o": v["options"], "dia": v["dialect"], "rtl": v["rtl"], "s": v["input"]}
    cpath = os.path.join(ctx.dir, "case.json")
    json.dump(case, open(cpath, "w"))
    path = os.path.join(ctx.dir, "replay.ndjson")
    ctx.run_vh(["record-find", "-case", cpath, "-o", path])
    out = ctx.tlc("Obs_Find", "Obs.cfg", env_extra={"VERIF_OBS": path})
    for b in out["tags"].get("BAD", []):
        res.violation({"rule": "find.mismatch", "pattern": b["text"], "input": b["s"], "start": b["start"],
                       "predicted": b["pred"], "real": b["real"]})


def attribute_find(ctx, viols, gate, rules=("find.mismatch",)):
    """re-runs the violating find cases with a rewrite gate on; returns those that now agree with the specification"""
    cases, idx = [], []
    for i, v in enumerate(viols):
        if v.get("rule") in rules and "p" in v and "input" in v:
            cases.append({"p": v["p"], "o": v["options"], "dia": v["dialect"], "rtl": v["rtl"], "s": v["input"]})
            idx.append(i)
    if not cases:
        return []
    cpath = os.path.join(ctx.dir, f"attr-{gate}.json")
    json.dump(cases, open(cpath, "w"))
    path = os.path.join(ctx.dir, f"attr-{gate}.ndjson")
    ctx.run_vh(["record-find", "-case", cpath, "-o", path], env_extra={"VERIF_GATES": gate})
    out = ctx.tlc("Obs_Find", "Obs.cfg", env_extra={"VERIF_OBS": path})
    still_bad = {(b["id"], b["start"]) for b in out["tags"].get("BAD", [])}
    return [viols[i] for k, i in enumerate(idx) if (k + 1, viols[i]["start"]) not in still_bad]

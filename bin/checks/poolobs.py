"""Shared by C11 / C12: history / concurrency harness + trace validation against Pool.tla (Obs_Pool)."""
import json, os
import vlib

PARAMS = {"nre": 8, "nin": 4, "nop": 9, "timeoutRe": 4, "stackRe": 3}


def model(ctx, res, cfg):
    out = ctx.tlc("Pool", cfg, timeout=7200, allow_violation=True)
    if "is violated" in out["raw"]:
        raise vlib.Broken("Pool.tla violates its own invariants: " + "\n".join(l for l in out["raw"].splitlines() if l.startswith("Error"))[:500])
    res.extra["pool_model_distinct_states"] = out["distinct"]
    if cfg == "Pool.cfg":
        # thorough tier: the three-goroutine pool with one replacement key, and the three-goroutine cache with three keys
        out2 = ctx.tlc("Pool", "Pool_cache.cfg", timeout=7200, allow_violation=True)
        if "is violated" in out2["raw"]:
            raise vlib.Broken("Pool.tla (cache configuration) violates its own invariants")
        res.extra["pool_cache_model_distinct_states"] = out2["distinct"]
    # the same model with CacheAdd inserting blindly must lose LRUConsistent: the invariant is not vacuous and the second
    # lookup inside add() is what it rests on
    neg = ctx.tlc("Pool", "Pool_norecheck.cfg", timeout=600, allow_violation=True)
    if "Invariant LRUConsistent is violated" not in neg["raw"]:
        raise vlib.Broken("Pool.tla without the second lookup in CacheAdd still satisfies LRUConsistent: the invariant is vacuous")


def validate_events(ctx, res, d, label, prefix):
    """groups the hook events per object and lets TLC validate them against Pool.tla's rules"""
    by_obj, cache, cs = {}, [], {}
    for e in d["events"]:
        if e["ev"] in ("scanStart", "putRunner"):
            by_obj.setdefault(e["obj"], []).append(e)
        elif e["ev"] in ("cacheGet", "cacheAdd"):
            cache.append(e)
        elif e["ev"] in ("csEnter", "csExit"):
            cs.setdefault(e["obj"], []).append(e)
    recs, rid = [], 0
    for obj, evs in cs.items():
        for k in range(0, len(evs), 4000):
            rid += 1
            recs.append({"id": rid, "kind": "cs", "max": 0, "events": evs[k:k + 4000]})
    for obj, evs in by_obj.items():
        for k in range(0, len(evs), 4000):      # bounded recursion depth in the TLA+ fold; a cut never splits an ownership interval wrongly
            chunk = evs[k:k + 4000]
            rid += 1
            recs.append({"id": rid, "kind": "runner", "max": 0, "events": chunk})
    for k in range(0, len(cache), 4000):
        rid += 1
        recs.append({"id": rid, "kind": "cache", "max": d["cache_max"], "events": cache[k:k + 4000]})
    if not recs:
        raise vlib.Broken("no pool events were recorded (hooks missing?)")
    # binding self-test: a foreign goroutine using a runner inside another one's interval must be rejected
    bad = None
    if cs:
        r = next(r for r in recs if r["kind"] == "cs")
        ev = [dict(x) for x in r["events"][:2]]
        intr = dict(ev[0]); intr["g"] = ev[0]["g"] + 100000
        bad = {"id": -1, "kind": "cs", "max": 0, "events": [ev[0], intr] + ev[1:]}
    for r in recs:
        if bad is None and r["kind"] == "runner" and len(r["events"]) >= 2 and r["events"][0]["ev"] == "scanStart":
            ev = [dict(x) for x in r["events"][:2]]
            intr = dict(ev[0]); intr["g"] = ev[0]["g"] + 100000
            bad = {"id": -1, "kind": "runner", "max": 0, "events": [ev[0], intr] + ev[1:]}
            break
    if bad is None:
        raise vlib.Broken("no runner trace usable for the binding self-test")
    path = os.path.join(ctx.dir, f"pool-{label}.ndjson")
    vlib.write_ndjson(path, recs + [bad])
    out = ctx.tlc("Obs_Pool", "Obs.cfg", env_extra={"VERIF_OBS": path}, timeout=3000)
    bads = out["tags"].get("BAD", [])
    if not any(b["id"] == -1 and b["rule"] in ("pool.owner", "cache.atomic") for b in bads):
        raise vlib.Broken("binding self-test failed: an overlapping ownership interval was accepted by Obs_Pool")
    if len(out["tags"].get("REC", [])) != len(recs) + 1:
        raise vlib.Broken("TLC did not check every event record")
    for b in bads:
        if b["id"] == -1:
            continue
        if b["rule"].startswith(prefix):
            res.violation({"rule": b["rule"], "event": b["ev"], "event_index": b["k"], "leg": label})
    res.traces += len(recs)
    return len(d["events"])


def take_results(ctx, res, d, label, rules):
    for m in d["mismatches"]:
        if m["rule"].startswith(rules):
            res.violation({"rule": m["rule"], "call": m["call"], "step": m["step"], "shared_result": m["shared_result"][:300], "fresh_result": m["fresh_result"][:300],
                           "history": m["history"][-6:], "leg": label})
    res.evaluations += d["steps"]
    res.nontrivial += d["nontrivial"]

"""Shared leg: two configurations of the real engine compared by TLC (spec/Obs_Rel.tla)."""
import json, os
import vlib


def corrupt(rec):
    r = json.loads(json.dumps(rec))
    r["id"] = -1
    for c in r["cases"]:
        for x in c["b"]:
            if x["ok"]:
                x["idx"] += 1
                return r
        if c["b"]:
            c["b"][0] = {"ok": True, "idx": 0, "len": 0, "caps": c["b"][0]["caps"]}
            if c["a"][0]["ok"] and c["a"][0]["idx"] == 0 and c["a"][0]["len"] == 0:
                c["b"][0]["len"] = 1
            return r
    return None


def obs_rel(ctx, res, rec_args, label, rules, timeout=3000):
    path = os.path.join(ctx.dir, f"rel-{label}.ndjson")
    p = ctx.run_vh(["record-rel", "-o", path] + rec_args)
    ctx.log(label, p.stderr.strip().splitlines()[-1][:400])
    recs = vlib.read_ndjson(path)
    if not recs:
        raise vlib.Broken("recorder produced no records")
    bad_self = None
    for r in recs:
        if r["cases"]:
            bad_self = corrupt(r)
            if bad_self:
                break
    if bad_self is None:
        raise vlib.Broken("no record usable for the binding self-test")
    with open(path, "a") as f:
        f.write(json.dumps(bad_self, ensure_ascii=False) + "\n")
    tags, dropped = ctx.tlc_obs("Obs_Rel", path, [r["id"] for r in recs] + [-1], label)
    if tags.get("WFERR"):
        raise vlib.Broken(f"generator produced ill-formed tables: {tags['WFERR'][:2]}")
    recsum = {r["id"]: r for r in tags.get("REC", [])}
    if len(recsum) + len(dropped) != len(recs) + 1:
        raise vlib.Broken(f"TLC checked {len(recsum)} of {len(recs)+1} records")
    if not any(b["id"] == -1 for b in tags.get("BAD", [])):
        raise vlib.Broken("binding self-test failed: a corrupted record was accepted by Obs_Rel")
    byid = {r["id"]: r for r in recs}
    other = {}
    for b in tags.get("BAD", []):
        if b["id"] == -1:
            continue
        r = byid[b["id"]]
        c = r["cases"][b["ci"] - 1]
        if not b["rule"].startswith(rules):
            other[b["rule"]] = other.get(b["rule"], 0) + 1
            continue
        st = b["start"]
        res.violation({"rule": b["rule"], "pattern": r["text"], "options": r["o"], "dialect": r["dia"], "rtl": r["rtl"],
                       "exact": r["exact"], "variant": r["variant"], "find_mode": r["mode"], "input": c["s"],
                       "input_text": "".join(chr(x) for x in c["s"]), "start": st,
                       "as_shipped": c["a"][st], "variant_result": c["b"][st],
                       "candidate_searches": [s for s in c["skips"] if s[0] == st][:6], "p": r["p"]})
    if other:
        ctx.log(f"{label}: facts rejected under other rules (reported by their own checks): {other}")
    res.evaluations += sum(r["cases"] for i, r in recsum.items() if i != -1)
    res.traces += sum(r["skips"] for i, r in recsum.items() if i != -1)
    res.nontrivial += sum(r["nontrivial"] for i, r in recsum.items() if i != -1)
    modes = {}
    for r in recs:
        modes[r["mode"]] = modes.get(r["mode"], 0) + 1
    res.extra.setdefault("find_modes_exercised", {})
    for k, v in modes.items():
        res.extra["find_modes_exercised"][k] = res.extra["find_modes_exercised"].get(k, 0) + v
    for r in recs[:60]:
        for c in r["cases"][:1]:
            if any(s[1] != s[2] for s in c["skips"]):
                res.add_sample({"pattern": r["text"], "options": r["o"], "rtl": r["rtl"], "variant": r["variant"], "find_mode": r["mode"],
                                "input": "".join(chr(x) for x in c["s"]),
                                "as_shipped_from_start_0": c["a"][0], "variant_from_start_0": c["b"][0],
                                "candidate_searches[start,from,to,found]": c["skips"][:5]}, cap=4)
    return len(recs)


def replay_rel(ctx, res, v, rules):
    ctx.build()
    case = [{"p": v["p"], "text": v["pattern"], "o": v["options"], "dia": v["dialect"], "rtl": v["rtl"], "exact": v["exact"], "variant": v["variant"], "s": v["input"]}]
    cpath = os.path.join(ctx.dir, "case.json")
    json.dump(case, open(cpath, "w"))
    path = os.path.join(ctx.dir, "replay.ndjson")
    ctx.run_vh(["record-rel", "-case", cpath, "-o", path])
    out = ctx.tlc("Obs_Rel", "Obs.cfg", env_extra={"VERIF_OBS": path})
    for b in out["tags"].get("BAD", []):
        if b["rule"].startswith(rules):
            res.violation({"rule": b["rule"], "pattern": v["pattern"], "input_text": v["input_text"], "start": b["start"]})


def attribute_rel(ctx, viols, gate, rules):
    cases, keyed = [], {}
    for v in viols:
        if "p" not in v or "input" not in v:
            continue
        key = json.dumps([v["p"], v["pattern"], v["options"], v["rtl"], v["variant"], v["input"]])
        if key not in keyed:
            keyed[key] = len(cases) + 1
            cases.append({"p": v["p"], "text": v["pattern"], "o": v["options"], "dia": v["dialect"], "rtl": v["rtl"], "exact": v["exact"],
                          "variant": v["variant"], "s": v["input"]})
    if not cases:
        return []
    cpath = os.path.join(ctx.dir, f"attr-{gate}.json")
    json.dump(cases, open(cpath, "w"))
    path = os.path.join(ctx.dir, f"attr-{gate}.ndjson")
    ctx.run_vh(["record-rel", "-case", cpath, "-o", path], env_extra={"VERIF_GATES": gate})
    out = ctx.tlc("Obs_Rel", "Obs.cfg", env_extra={"VERIF_OBS": path})
    still = {b["id"] for b in out["tags"].get("BAD", []) if b["rule"].startswith(rules)}
    return [v for v in viols if "p" in v and "input" in v and
            keyed[json.dumps([v["p"], v["pattern"], v["options"], v["rtl"], v["variant"], v["input"]])] not in still]

#!/usr/bin/env python3
"""Writes MANIFEST.json from the table below (single place to keep it current)."""
import json, os, subprocess
V = os.path.dirname(os.path.dirname(os.path.abspath(__file__)))
props = [json.loads(l) for l in open(os.path.join(V, "properties.jsonl"))]

# property -> (level, technique, level text, level note, design ref)
CLAIMED = {
 "C01": ("model_checking",
         "TLA+ reference semantics (RegexSem.Find over Options.Elab) evaluated by TLC as the oracle for traces recorded from the real engine (trace/observation validation), plus TLC-enumerated bounded pattern grammar replayed into the engine",
         "Every recorded (pattern, options, input, start offset, result) tuple is recomputed by TLC from the explicit specification of leftmost priority-ordered backtracking and must be equal in index, length and the complete ordered capture list of every group; the bounded-grammar leg is exhaustive within its bounds. This is the right level because the property is an equality with a defined search, and the search is the specification.",
         "Trusted: TLC, CommunityModules Json/IOUtils, Go's unicode tables (source of Unicode.tla), the harness printer (AST -> text). Bounded: depth/size of ASTs and input length.",
         "6/C01"),
}
NOT_YET = "check not built yet in this round (planned, see DESIGN.md section 6)"

hooks_commits = []
try:
    out = subprocess.run(["git", "-C", "/repo", "log", "--format=%H %s"], capture_output=True, text=True).stdout
    hooks_commits = [l.split()[0] for l in out.splitlines() if " hook:" in l or l.split(" ", 1)[1].startswith("verif hook")]
except Exception:
    pass

m = {
 "version": 1,
 "setup_cmd": "bin/setup",
 "hooks": {
  "guard": "verif",
  "enable": "go build -tags verif (the harness module replaces github.com/dlclark/regexp2/v2 with /repo)",
  "baseline_off_cmd": "cd /repo && GOFLAGS=-mod=mod go test -vet=off -count=1 -timeout 25m ./...",
  "source_commits": hooks_commits,
  "add_only": True,
 },
 "engines": [
  {"name": "RegexSem", "path": "spec/RegexSem.tla", "serves_properties": ["C01", "C15"], "kind_free_text": "TLA+ reference semantics of the backtracking matcher and scan loop, evaluated by TLC"},
  {"name": "Options", "path": "spec/Options.tla", "serves_properties": ["C01", "C18"], "kind_free_text": "TLA+ specification of option elaboration and basic group numbering"},
  {"name": "Obs_Find", "path": "spec/Obs_Find.tla", "serves_properties": ["C01", "C15"], "kind_free_text": "trace/observation validation spec: recorded find results must be behaviours of RegexSem"},
 ],
 "checks": [],
 "not_applicable": [],
 "notes": "All checks: bin/check <id> quick|thorough; exit 0 held / 1 VIOLATION / 2 broken check. Known findings: known_findings.json.",
}
for p in props:
    pid = p["id"]
    if pid in CLAIMED:
        level, tech, text, note, ref = CLAIMED[pid]
        m["checks"].append({
            "property_id": pid,
            "quick_cmd": f"bin/check {pid} quick",
            "thorough_cmd": f"bin/check {pid} thorough",
            "evidence_file": f"evidence/{pid}.json",
            "replay_cmd_template": f"bin/check {pid} --replay {{path}}",
            "engine": "TLC",
            "level_claimed": {"category": level, "text": text, "design_ref": "DESIGN.md section " + ref},
            "level_note": note,
            "technique": tech,
        })
    else:
        m["not_applicable"].append({"property_id": pid, "reason": NOT_YET})
json.dump(m, open(os.path.join(V, "MANIFEST.json"), "w"), indent=1)
print("claimed:", [c["property_id"] for c in m["checks"]])

#!/usr/bin/env python3
"""Writes MANIFEST.json from the table below (single place to keep it current)."""
import json, os, subprocess
V = os.path.dirname(os.path.dirname(os.path.abspath(__file__)))
props = [json.loads(l) for l in open(os.path.join(V, "properties.jsonl"))]

# property -> (level, technique, level text, level note, design ref)
CLAIMED = {
 "C01": ("model_checking",
         "TLA+ reference semantics (RegexSem.Find over Options.Elab) evaluated by TLC as the oracle for traces recorded from the real engine (trace/observation validation), plus TLC-enumerated bounded pattern grammar replayed into the engine",
         "Every recorded (pattern, options, input, start offset, result) tuple is recomputed by TLC from the explicit specification of leftmost priority-ordered backtracking and must be equal in index, length and the complete ordered capture list of every group; the bounded-grammar leg is exhaustive within its bounds. This is the right level because the property is an equality with a defined search, and the search is the specification.",
         "Trusted: TLC, CommunityModules Json/IOUtils, Go's unicode tables (source of Unicode.tla), the harness printer (AST -> text). Bounded: depth/size of ASTs and input length.",
         "6/C01"),
}
API_NOTE = "Trusted: TLC, CommunityModules Json/IOUtils, Go's unicode tables and utf8 decoding (cross-checked per input against API.tla's decoder), the harness printer. Outside the exact oracle (\\G, balancing groups, explicitly numbered sparse groups) the reference search table is the one recorded from FindRunesMatchStartingAt; bounded: AST size, inputs <= 14 runes."
API_TECH = "trace/observation validation: one record of every entry point's result per (pattern, input) is accepted by TLC iff it is what the TLA+ module API.tla (folds over one search function; RegexSem.Find inside the fragment) derives"
CLAIMED.update({
 "C15": ("model_checking", CLAIMED["C01"][1] + " (RightToLeft: direction flag per continuation frame, descending scan)",
         "As C01, for the RightToLeft option alone and combined with i/m/s: the specification's direction-aware semantics (characters consumed leftwards, concatenations last-to-first, look-ahead still rightwards, normalised spans, descending scan) is the oracle for every start offset; the TLC-enumerated grammar leg is exhaustive within its bounds.",
         CLAIMED["C01"][3], "6/C15"),
 "C02": ("model_checking", API_TECH, "Every public entry point's result for one compiled pattern and one input is logged in one record and TLC accepts it only if all of them are the images of one search function under API.tla (bool <=> find, string = rune results modulo byte/rune conversion, StartingAt at every offset, FindNextMatch chains, find-all, ReplaceFunc enumeration); inside the fragment that function is the specification's.", API_NOTE, "6/C02"),
 "C07": ("model_checking", API_TECH + "; iteration laws (strictly advancing, disjoint, no repeated empty match, <= len+1 matches, = chain of independent searches) and the find-all rule are TLA+ predicates over the recorded chain", "The laws of C07 are state predicates of API.tla evaluated by TLC on every recorded FindNextMatch chain (both directions, n in {-1,0,1,2,3}), with the chain of independent searches recomputed from the specification (fragment) or from the recorded StartingAt searches.", API_NOTE, "6/C07"),
 "C08": ("model_checking", API_TECH + "; well-formedness and ByteRange = byte offsets computed by API.tla's own UTF-8 decoder from the raw input bytes", "Every match object returned by every entry point is checked by TLC against the C08 invariants, with byte spans recomputed by the specification from the raw bytes (each invalid byte one rune).", API_NOTE, "6/C08"),
 "C09": ("model_checking", API_TECH + "; Replace/ReplaceFunc/Split = API.tla folds (ReplaceWith, Expand, ParseRepl, SplitWith) of the match sequence; plus TLC-enumerated forward conformance of the replacement mini-language (Gen_Repl.tla: every replacement string up to the bound x six numbering contexts, replayed into the real Replace)", "Replace, ReplaceFunc and Split outputs are recomputed by TLC as folds of the match sequence with the replacement mini-language parsed and expanded by the specification, for both directions, start offsets and counts.", API_NOTE, "6/C09"),
})
REL_NOTE = "Trusted: TLC, CommunityModules Json/IOUtils, the verif hooks (VerifNaive copy, VerifOnFind, rewrite gates) which only replace the candidate search / switch rewrites off; outside the exact fragment liveness and equality are judged between two runs of the real engine."
CLAIMED.update({
 "C03": ("model_checking", "trace validation of the SkipTo contract (every candidate-search event (from,to,found) recorded by a hook must skip only positions the TLA+ semantics proves dead) + relational observation validation (random ASTs, accel shapes per find mode, patterns harvested from the repository's own tests): as-shipped vs naive scan of the same compiled program, judged by TLC (Obs_Rel)",
         "Every candidate search the engine performs is logged and TLC rejects it if any skipped position admits a match (RegexSem.Attempt inside the fragment); results with all acceleration disabled must be identical in position, length and captures for every start offset, for patterns biased to every find mode, both directions, code-gen analysis on/off.", REL_NOTE, "6/C03"),
 "C04": ("model_checking", "bounded-exhaustive model checking of the exported facts: TLC enumerates every string over a pattern-derived alphabet up to the bound and every attempt position, computes the matches with the TLA+ semantics and evaluates Facts.tla's meaning of each published fact",
         "Soundness of an over-approximation is decided over ALL strings of the bounded language and all positions: each fact exported from the real compile (min/max length, anchors, prefix(es), fixed-distance literal/sets, literal-after-loop, landmark chain, first-char set, Boyer-Moore prefix) must hold at every match the specification finds.",
         "Trusted: TLC, Json/IOUtils; set membership over the alphabet is taken from the engine's CharIn (class algebra is C16); exact oracle only inside the fragment; alphabet of 5 symbols, length <= 4 (5 in the thorough tier).", "6/C04"),
 "C05": ("model_checking", "relational observation validation judged by TLC (Obs_Rel): the same pattern compiled as shipped and with the tree-rewrite gates on (random ASTs, accel shapes, patterns harvested from the repository's tests), plus equality with the TLA+ semantics (rel.spec) and a TLC-enumerated forward leg (Gen_Find families body3, body3g, atomseq: the shapes the rewrites inspect) replayed into the rewritten engine",
         "For every pattern, input and start offset the match and all captures with the rewrites (auto-atomic loops, ending-backtracking elimination, bump-along markers, prefix factoring, atomic-alternation reordering) must equal those with the rewrites gated off, and both equal RegexSem.Find inside the fragment.", REL_NOTE, "6/C05"),
})
TB = "Trusted: TLC, CommunityModules Json/IOUtils, Go's unicode tables (Unicode.tla), the harness printer."
CLAIMED.update({
 "C16": ("model_checking", "TLC-enumerated forward conformance (Gen_Class.tla: every class from ordered pairs of 22 interacting parts x negation x subtraction x IgnoreCase x dialect, members predicted by CharClass!InClass and probed on the real engine) + observation validation against the TLA+ class algebra CharClass.tla (IgnoreCase = closure under simple case-fold orbits, exact over all of Unicode): the real membership table over ALL runes is compared by TLC on every rune <= U+024F and on every breakpoint +-1 of both piecewise-constant membership functions (= everywhere), thorough: pointwise over all 1 114 112 runes",
         "InClass is literally the sentence of the property; because both the specification's and the implementation's membership are piecewise constant between known breakpoints, agreement on all breakpoints +-1 is agreement on every rune. Six further lookup paths are compared on a sample domain.", TB + " Under IgnoreCase the domain is restricted as the property states.", "6/C16"),
 "C17": ("model_checking", "TLC enumerates the whole bounded domain of the TLA+ numbering function Groups!Numbering (every declaration sequence up to the bound x mode) and each prediction is replayed into the real engine through every observable of the name/number map",
         "A pure function with rich case analysis: one implementation test per element of its bounded domain, exhaustive within the bound.", TB, "6/C17"),
 "C18": ("model_checking", "model checking of Options!Elab (the inline spelling means the compile-time options, checked by TLC on the specification for every family pattern/input) + TLC-enumerated forward conformance of four spellings + observation validation of random ASTs with options moved inline",
         "Each spelling of (pattern, O) is predicted by the specification and replayed; the specification itself is checked to give the spellings one meaning, so the three real results are equal by transitivity, captures and group numbering included.", TB, "6/C18"),
 "C19": ("model_checking", "observation validation against Escape.tla (the MEANING of escaped text): bounded-exhaustive strings over a branch-covering alphabet + random strings; TLC checks Meaning(Escape(s)) = s, the Unescape round trip and the anchored match table under 10 option sets",
         "Escape.tla specifies what escaped text denotes, not one encoding; every string up to the bound over an alphabet with one representative per branch is checked, and literal meaning is observed through the real matcher (s matches, one-edit neighbours do not).", TB, "6/C19"),
 "C20": ("model_checking", "metamorphic observation validation judged by TLC (Obs_Case): all members of a case-flip family must give one outcome, equal to RegexSem inside the fragment; the specification's own invariance is model-checked on the same families",
         "Invariance under case changes of input and pattern letters is a relation between runs of the real engine; TLC checks it on every family, checks the exact outcome against the specification where it applies, and checks that the specification itself is invariant (M).", TB + " Only letters with a simple upper/lower fold orbit are flipped.", "6/C20"),
})
CLAIMED.update({
 "C13": ("model_checking", "TLC model checking of StackPolicy.tla (the growth policy as a state machine: every tc, limit and push/pop schedule) + trace validation of the growth steps recorded by a hook against that model + black-box sweep of limits judged by TLC (Obs_Stack)",
         "The design-level question (can a push overflow? can capacity exceed the limit?) is decided exhaustively on the model - which is how the original panic was found - and every recorded run must be a behaviour of the model; the property's own clauses (no panic, unlimited result or limit error, capacity <= L, monotone in L, reusable) are checked on every run of a limit sweep.",
         "Trusted: TLC, Json/IOUtils; the interpreter's contract that a forward run between two storage checks pushes at most 4*TrackCount slots is an assumption of the model (Push(a), a <= 4*tc).", "6/C13"),
 "C14": ("model_checking", "TLC model checking of Clock.tla (explicit state machine of makeDeadline/extendClock/runClock/stopClock with real time) + real-time replay of model-derived histories, including TLC counter-example interleavings forced through gate hooks + trace validation of hook-recorded clock events (Obs_Clock)",
         "All interleavings of two callers, the clock goroutine and the stopper are explored on the model (NoEarlyTimeout, AtMostOneClock, LiveDeadlineHasClock, clock exit); the histories the property names are then run against the real code in real time with one-sided hard bounds, and the event order observed under the mutex must be a behaviour of the model.",
         "Trusted: TLC; the urgency assumptions of the model (goroutines scheduled within a tick); wall-clock bounds: hard lower bound d/2, soft upper bound retried.", "6/C14"),
})
CLAIMED.update({
 "C06": ("model_checking", "TLC-enumerated bounded grammar (Gen_Find, RE2 dialect) replayed through all 22 adapter methods against Go's regexp as the oracle the property names; the TLA+ semantics is the third leg that localises differences",
         "The case space (patterns of the common syntax x all inputs up to a bound x n) is enumerated by the model checker and every adapter method is compared with the standard library on each case, including invalid UTF-8 and nil-ness; the specification must agree with the library too, otherwise the check reports itself broken.",
         "Oracle: Go's regexp (by the property's own wording). Common syntax = what regexp.Compile accepts among the enumerated families (no quantified nullable sub-pattern by construction).", "6/C06"),
 "C10": ("exploration", "TLC enumerates every token string up to a bound (Gen_Tokens.tla); plus the repository's parser corpus and the string literals harvested from its own test files, on hostile and on pattern-derived subjects; the replayer drives the whole API under recover and a watchdog and compares error classes with the TLA+ predicate ArgError",
         "Exploration: outcome classes only (usable Regexp or parse error; calls return normally; errors are timeout, stack limit or the documented argument errors exactly when ArgError predicts).",
         "Not coverage-guided byte mutation (a different technique family); memory safety beyond panics is not addressed.", "6/C10 and 8"),
 "C11": ("model_checking", "TLC model checking of Pool.tla (all interleavings of Get/Select/Init/Scan/Put/Drop and of the cache's two critical sections CacheGet/CacheAdd; negative configuration without the second lookup) + schedule forcing inside the cache's critical sections validated by Obs_Pool (cache.atomic) + race-detector stress on shared Regexps with results compared to sequential execution + trace validation of hook events (ownership intervals, reset state, program restore, cache bounds) against Pool.tla by TLC (Obs_Pool)",
         "The design-level question (can two goroutines share a runner, can a runner come back with the quick program, is state reset) is decided on the model for every interleaving; the real code is then observed under the race detector and every logged event order must be a behaviour of the model, every result equal to the sequential one.",
         "Trusted: TLC, the Go race detector (observation instrument), hook events logged after acquisition / before release. The shared clock is C14's model.", "6/C11"),
 "C12": ("model_checking", "TLC model checking of Pool.tla (CleanAtScan, IdleIsFull, RightProgram, LRU) + TLC-enumerated call histories (Gen_Hist: every ordered pair over a reduced call alphabet, plus long pseudo-random histories) replayed on shared vs freshly compiled Regexps + trace validation of runner state at every scan start (Obs_Pool)",
         "History independence is the headline invariant of Pool.tla (every result is a function of the arguments); every predecessor/successor pair of call kinds incl. error exits is enumerated and replayed, and the projected interpreter state at each scan start must be the reset state.",
         "Trusted: TLC; results compared through digests of all captures / output strings; inputs cross the 1K/4K/16K buffer classes.", "6/C12"),
})
NOT_YET = "check not built yet in this round (planned, see DESIGN.md section 6)"

hooks_commits = []
try:
    out = subprocess.run(["git", "-C", "/repo", "log", "--format=%H %s"], capture_output=True, text=True).stdout
    hooks_commits = [l.split()[0] for l in out.splitlines() if " hook:" in l or l.split(" ", 1)[1].startswith("verif hook")]
except Exception:
    pass

m = {
 "version": 1,
 "setup_cmd": "bin/setup",
 "hooks": {
  "guard": "verif",
  "enable": "go build -tags verif (the harness module replaces github.com/dlclark/regexp2/v2 with /repo)",
  "baseline_off_cmd": "cd /repo && GOFLAGS=-mod=mod go test -vet=off -count=1 -timeout 25m ./...",
  "source_commits": hooks_commits,
  "add_only": True,
 },
 "engines": [
  {"name": "RegexSem", "path": "spec/RegexSem.tla", "serves_properties": ["C01", "C15"], "kind_free_text": "TLA+ reference semantics of the backtracking matcher and scan loop, evaluated by TLC"},
  {"name": "Options", "path": "spec/Options.tla", "serves_properties": ["C01", "C18"], "kind_free_text": "TLA+ specification of option elaboration and basic group numbering"},
  {"name": "API", "path": "spec/API.tla", "serves_properties": ["C02", "C07", "C08", "C09"], "kind_free_text": "TLA+ specification of the entry points as folds over one search function, UTF-8 decoding, iteration laws, replacement mini-language"},
  {"name": "Obs_API", "path": "spec/Obs_API.tla", "serves_properties": ["C02", "C07", "C08", "C09"], "kind_free_text": "observation validation spec over records of all entry points"},
  {"name": "Gen_Find", "path": "spec/Gen_Find.tla", "serves_properties": ["C01", "C15"], "kind_free_text": "TLC-enumerated bounded pattern grammar with predicted results (forward conformance)"},
  {"name": "Obs_Rel", "path": "spec/Obs_Rel.tla", "serves_properties": ["C03", "C05"], "kind_free_text": "relational / SkipTo trace validation spec"},
  {"name": "Facts", "path": "spec/Facts.tla", "serves_properties": ["C04"], "kind_free_text": "TLA+ meaning of every published compile-time fact; Obs_Facts.tla enumerates all bounded strings"},
  {"name": "CharClass", "path": "spec/CharClass.tla", "serves_properties": ["C16"], "kind_free_text": "class membership as set algebra; Obs_Class.tla validates recorded membership tables"},
  {"name": "Groups", "path": "spec/Groups.tla", "serves_properties": ["C17"], "kind_free_text": "group numbering function; Gen_Groups.tla enumerates its domain"},
  {"name": "Escape", "path": "spec/Escape.tla", "serves_properties": ["C19"], "kind_free_text": "meaning of escaped text; Obs_Escape.tla"},
  {"name": "Obs_Case", "path": "spec/Obs_Case.tla", "serves_properties": ["C20"], "kind_free_text": "metamorphic case-flip families"},
  {"name": "StackPolicy", "path": "spec/StackPolicy.tla", "serves_properties": ["C13"], "kind_free_text": "state machine of the backtracking-stack growth policy, model checked; Obs_Stack.tla validates recorded growth traces and limit sweeps"},
  {"name": "Clock", "path": "spec/Clock.tla", "serves_properties": ["C14"], "kind_free_text": "state machine of the timeout clock with real time, model checked (MC_Clock.tla, Clock_*.cfg); Obs_Clock.tla validates recorded clock events"},
  {"name": "Pool", "path": "spec/Pool.tla", "serves_properties": ["C11", "C12"], "kind_free_text": "state machine of the runner pool / program switch / LRU, model checked (Pool.cfg, Pool_quick.cfg); Obs_Pool.tla validates hook event traces; Gen_Hist.tla enumerates call histories"},
  {"name": "Gen_Class", "path": "spec/Gen_Class.tla", "serves_properties": ["C16"], "kind_free_text": "TLC-enumerated class vocabulary with predicted membership (forward conformance)"},
  {"name": "Gen_Fold", "path": "spec/Gen_Fold.tla", "serves_properties": ["C16"], "kind_free_text": "TLC-enumerated two-rune ranges around every cased rune under IgnoreCase with predicted membership (forward conformance of the range case closure)"},
  {"name": "Gen_Repl", "path": "spec/Gen_Repl.tla", "serves_properties": ["C09"], "kind_free_text": "TLC-enumerated replacement strings with predicted Replace results in six contexts (forward conformance of the replacement mini-language)"},
  {"name": "Gen_Tokens", "path": "spec/Gen_Tokens.tla", "serves_properties": ["C10"], "kind_free_text": "token-string enumeration and argument-error predicate"},
  {"name": "Obs_Find", "path": "spec/Obs_Find.tla", "serves_properties": ["C01", "C15"], "kind_free_text": "trace/observation validation spec: recorded find results must be behaviours of RegexSem"},
 ],
 "checks": [],
 "not_applicable": [],
 "notes": "All checks: bin/check <id> quick|thorough; exit 0 held / 1 VIOLATION / 2 broken check. Known findings: known_findings.json.",
}
for p in props:
    pid = p["id"]
    if pid in CLAIMED:
        level, tech, text, note, ref = CLAIMED[pid]
        m["checks"].append({
            "property_id": pid,
            "quick_cmd": f"bin/check {pid} quick",
            "thorough_cmd": f"bin/check {pid} thorough",
            "evidence_file": f"evidence/{pid}.json",
            "replay_cmd_template": f"bin/check {pid} --replay {{path}}",
            "engine": "TLC",
            "level_claimed": {"category": level, "text": text, "design_ref": "DESIGN.md section " + ref},
            "level_note": note,
            "technique": tech,
        })
    else:
        m["not_applicable"].append({"property_id": pid, "reason": NOT_YET})
json.dump(m, open(os.path.join(V, "MANIFEST.json"), "w"), indent=1)
print("claimed:", [c["property_id"] for c in m["checks"]])

"""Shared plumbing of the /verif checks: building the harness from /repo's working tree, running TLC,
parsing its output channel, known findings, replay files, evidence, exit codes.

Exit codes (DESIGN.md section 5):  0 property held on everything explored; 1 VIOLATION (a behaviour of the
real code contradicting the property, not listed in known_findings.json); 2 anything else (broken check,
TLC error, drift) - never a VIOLATION line."""
import hashlib, json, os, re, shutil, subprocess, sys, tempfile, time

VERIF = os.path.dirname(os.path.dirname(os.path.abspath(__file__)))
REPO = os.environ.get("VERIF_REPO", "/repo")
SPEC = os.path.join(VERIF, "spec")
JAR = "/opt/veriftools/tla/tla2tools.jar:/opt/veriftools/tla/CommunityModules-deps.jar"
NCPU = os.cpu_count() or 4


class Broken(Exception):
    """the check itself could not do its job (exit 2)"""


class EnginePanic(Exception):
    """the real engine panicked inside a recorder (harness exit code 3): a behaviour of the code under test"""
    def __init__(self, info):
        super().__init__(info.get("panic", "panic"))
        self.info = info


def goenv():
    e = dict(os.environ)
    e.update(GOFLAGS="-mod=mod", GOPROXY="off", GOSUMDB="off", GOTOOLCHAIN="local", CGO_ENABLED=e.get("CGO_ENABLED", "0"))
    return e


def gobin():
    for g in ("go1.26", "go1.26.8"):
        p = shutil.which(g)
        if p:
            return p
    return "go"


class Ctx:
    def __init__(self, prop, tier, seed):
        self.prop, self.tier, self.seed = prop, tier, seed
        self.t0 = time.time()
        os.makedirs(os.path.join(VERIF, ".scratch"), exist_ok=True)
        self.dir = tempfile.mkdtemp(prefix=f"{prop}-", dir=os.path.join(VERIF, ".scratch"))
        self.vh = None
        self.tlc_states = 0
        self.tlc_distinct = 0
        self.tlc_runs = 0
        self.log_lines = []

    def cleanup(self):
        shutil.rmtree(self.dir, ignore_errors=True)

    def log(self, *a):
        msg = " ".join(str(x) for x in a)
        print(f"[{self.prop} {time.time()-self.t0:6.1f}s] {msg}", flush=True)

    # ------------------------------------------------------------------ harness
    def build(self, race=False, tags="verif"):
        """builds the harness against /repo's current working tree (hooks on)"""
        out = os.path.join(self.dir, "vh-race" if race else "vh")
        env = goenv()
        cmd = [gobin(), "build", "-tags", tags, "-o", out]
        if race:
            env["CGO_ENABLED"] = "1"
            cmd.insert(2, "-race")
        cmd.append(".")
        # the harness module pins /repo through a replace directive; VERIF_REPO overrides it for scratch worktrees
        hdir = os.path.join(VERIF, "harness")
        if REPO != "/repo":
            hdir = os.path.join(self.dir, "harness-src")
            shutil.copytree(os.path.join(VERIF, "harness"), hdir, dirs_exist_ok=True)
            gm = open(os.path.join(hdir, "go.mod")).read().replace("=> /repo", "=> " + REPO)
            open(os.path.join(hdir, "go.mod"), "w").write(gm)
        p = subprocess.run(cmd, cwd=hdir, env=env, capture_output=True, text=True)
        if p.returncode != 0:
            raise Broken("harness build failed:\n" + p.stdout + p.stderr)
        if not race:
            self.vh = out
        return out

    def run_vh(self, args, timeout=3600, binary=None, env_extra=None, stdin=None, ok_codes=(0,)):
        env = goenv()
        env["VERIF_SEED"] = str(self.seed)
        if env_extra:
            env.update(env_extra)
        p = subprocess.run([binary or self.vh] + args, env=env, capture_output=True, text=True, timeout=timeout, input=stdin)
        if p.returncode == 3:
            for line in p.stderr.splitlines():
                if line.startswith("ENGINE-PANIC "):
                    raise EnginePanic(json.loads(line[len("ENGINE-PANIC "):]))
        if p.returncode not in ok_codes:
            raise Broken(f"harness {' '.join(args[:3])} exited {p.returncode}:\n{p.stderr[-4000:]}")
        return p

    # ------------------------------------------------------------------ TLC
    def tlc(self, module, cfg, env_extra=None, workers=None, timeout=3600, simulate=None, extra=None, allow_violation=False, partial_ok=False):
        """runs TLC on spec/<module>.tla with spec/<cfg>; returns dict(tags -> list of parsed JSON payloads,
        raw output, generated/distinct states). Raises Broken on TLC errors."""
        self.tlc_runs += 1
        work = os.path.join(self.dir, f"tlc{self.tlc_runs}")
        os.makedirs(work)
        for f in os.listdir(SPEC):
            if f.endswith(".tla") or f.endswith(".cfg"):
                shutil.copy(os.path.join(SPEC, f), work)
        env = dict(os.environ)
        if env_extra:
            env.update({k: str(v) for k, v in env_extra.items()})
        cmd = ["java", "-Xss512m", "-XX:+UseParallelGC", "-cp", JAR, "tlc2.TLC", "-workers", str(workers or NCPU),
               "-metadir", os.path.join(work, "meta"), "-maxSetSize", "3000000", "-config", cfg]   # C16 compares all 1 114 112 runes of a class
        if simulate:
            cmd += ["-simulate", simulate]
        if extra:
            cmd += extra
        cmd.append(module + ".tla")
        timed_out = False
        if partial_ok:
            # observation runs: stop as soon as TLC has printed no record verdict for `stall` seconds (a record it cannot
            # evaluate blocks its chunk; waiting for the full time limit would not change anything) and keep what it printed
            import threading
            stall = 150 if self.tier == "quick" else 240
            proc = subprocess.Popen(cmd, cwd=work, env=env, stdout=subprocess.PIPE, stderr=subprocess.STDOUT, text=True)
            lines, last = [], [time.time(), 0]
            def reader():
                for line in proc.stdout:
                    lines.append(line)
                    if line.startswith('<<"'):
                        last[0], last[1] = time.time(), last[1] + 1
            th = threading.Thread(target=reader, daemon=True)
            th.start()
            t_start = time.time()
            while proc.poll() is None:
                time.sleep(1)
                now = time.time()
                if now - t_start > timeout or (last[1] > 0 and now - last[0] > stall):
                    proc.kill()
                    timed_out = True
                    break
            proc.wait()
            th.join(timeout=10)
            out, rc = "".join(lines), (0 if timed_out else proc.returncode)
        else:
            try:
                p = subprocess.run(cmd, cwd=work, env=env, capture_output=True, text=True, timeout=timeout)
                out, rc = p.stdout, p.returncode
            except subprocess.TimeoutExpired:
                raise Broken(f"TLC {module} timed out after {timeout}s")
        res = {"raw": out, "tags": {}, "generated": 0, "distinct": 0, "rc": rc, "timed_out": timed_out}
        for line in out.splitlines():
            if line.startswith('<<"'):
                m = re.match(r'<<"([A-Z_]+)", (.*)>>\s*$', line)
                if m:
                    try:
                        payload = json.loads(json.loads(m.group(2)))
                    except Exception:
                        payload = m.group(2)
                    res["tags"].setdefault(m.group(1), []).append(payload)
            m = re.match(r"(\d+) states generated, (\d+) distinct states found", line)
            if m:
                res["generated"], res["distinct"] = int(m.group(1)), int(m.group(2))
        self.tlc_states += res["distinct"]
        self.tlc_distinct += res["generated"]
        failed = ("Error:" in out) or rc not in (0,)
        if failed and not (allow_violation and "is violated" in out and "unexpected exception" not in out):
            shutil.copy(os.path.join(work, module + ".tla"), os.path.join(work, "failed.tla"))
            tail = "\n".join(l for l in out.splitlines() if not l.startswith(("Linting", "Semantic", "Parsing", '<<"')))[-5000:]
            raise Broken(f"TLC {module}/{cfg} failed (rc={rc}):\n{tail}")
        shutil.rmtree(work, ignore_errors=True)
        return res


    def tlc_obs(self, module, path, ids, label, timeout=None):
        """validates the ND-JSON records of `path` (ids = their record ids) with an Obs_* module.  A record whose
        evaluation TLC does not finish in time (a pattern that is exponential for the plain backtracking specification but
        not for the engine, and that the harness' cost probe did not predict) must not take the check down: the records
        without a verdict are run again on their own, one per TLC state; those still without a verdict are dropped from this
        run, logged and counted.  Returns (tags, dropped ids)."""
        if timeout is None:
            timeout = 420 if self.tier == "quick" else 1800
        out = self.tlc(module, "Obs.cfg", env_extra={"VERIF_OBS": path}, timeout=timeout, partial_ok=True)
        tags = out["tags"]
        done = {r["id"] for r in tags.get("REC", [])}
        missing = [i for i in ids if i not in done]
        if not out["timed_out"]:
            return tags, []
        self.log(f"{label}: TLC gave no verdict on {len(missing)} of {len(ids)} records (time limit {timeout}s or no progress); re-running those individually")
        recs = {r["id"]: r for r in read_ndjson(path)}
        p2 = path + ".retry"
        write_ndjson(p2, [recs[i] for i in missing])
        out2 = self.tlc(module, "Obs.cfg", env_extra={"VERIF_OBS": p2}, timeout=min(timeout, 240), partial_ok=True)
        for k, vlist in out2["tags"].items():
            tags.setdefault(k, []).extend(vlist)
        done |= {r["id"] for r in out2["tags"].get("REC", [])}
        dropped = [i for i in ids if i not in done]
        if len(dropped) > max(3, len(ids) // 50):
            raise Broken(f"{label}: TLC could not evaluate {len(dropped)} of {len(ids)} records in time")
        if dropped:
            self.log(f"{label}: {len(dropped)} record(s) dropped, too expensive for the specification: ids {dropped[:8]}")
            self.dropped_records = getattr(self, "dropped_records", 0) + len(dropped)
        return tags, dropped


# ---------------------------------------------------------------------- known findings
def load_known(prop):
    path = os.path.join(VERIF, "known_findings.json")
    if not os.path.exists(path):
        return []
    data = json.load(open(path))
    return [f for f in data.get("findings", []) if f.get("property") == prop and f.get("status") == "open"]


def match_known(known, viol):
    """a violation is {rule: str, ...fields}; a finding matches if rule is equal and every key of finding['match']
    equals (or, for strings ending with '*', prefixes) the violation's field"""
    for k in known:
        kr = k.get("rule")
        if isinstance(kr, dict) and "regex" in kr:
            if not re.search(kr["regex"], str(viol.get("rule", ""))):
                continue
        elif kr != viol.get("rule"):
            continue
        ok = True
        for key, val in k.get("match", {}).items():
            v = viol.get(key)
            if isinstance(val, dict) and "regex" in val:
                if not (isinstance(v, str) and re.search(val["regex"], v)):
                    ok = False
            elif v != val:
                ok = False
        if ok:
            return k
    return None


# ---------------------------------------------------------------------- result / evidence
class Result:
    def __init__(self, ctx, level="model_checking"):
        self.ctx = ctx
        self.level = level
        self.evaluations = 0
        self.nontrivial = 0
        self.traces = 0
        self.samples = []
        self.violations = []   # dicts with 'rule' and details
        self.rule = ""
        self.extra = {}
        self.assumptions = []
        self.exhaustive = False

    def add_sample(self, s, cap=6):
        if len(self.samples) < cap:
            self.samples.append(s)

    def violation(self, v):
        self.violations.append(v)


def finish(ctx, res, attribute=None):
    """attribute(ctx, violations, gate) -> list of the violations that disappear when the real code is re-run with
    the named rewrite gate switched on: those are occurrences of the known finding the gate isolates (identification
    by call site); everything else stays a violation."""
    known = load_known(ctx.prop)
    new, seen_known = [], {}
    for v in res.violations:
        k = match_known([k for k in known if "gate" not in k], v)
        if k is not None:
            seen_known.setdefault(k["id"], (k, 0))
            seen_known[k["id"]] = (k, seen_known[k["id"]][1] + 1)
        else:
            new.append(v)
    for k in [k for k in known if "gate" in k]:
        if not new or attribute is None:
            break
        explained = attribute(ctx, new, k["gate"])
        if explained:
            keys = {json.dumps(v, sort_keys=True) for v in explained}
            new = [v for v in new if json.dumps(v, sort_keys=True) not in keys]
            seen_known[k["id"]] = (k, len(explained))
    for kid, (k, n) in seen_known.items():
        print(f"KNOWN-FINDING: property={ctx.prop} {k['id']}: {k['what']} ({n} occurrences this run)")
    # findings listed but not observed in this run are still announced (they are properties of the tree, not of the run)
    for k in known:
        if k["id"] not in seen_known:
            print(f"KNOWN-FINDING: property={ctx.prop} {k['id']}: {k['what']} (not re-observed by this run's sample)")
    rc = 0
    if new:
        rc = 1
        os.makedirs(os.path.join(VERIF, "replays"), exist_ok=True)
        shown = set()
        for v in new[:20]:
            h = hashlib.sha1(json.dumps(v, sort_keys=True).encode()).hexdigest()[:12]
            path = os.path.join(VERIF, "replays", f"{ctx.prop}-{h}.json")
            json.dump({"property": ctx.prop, "violation": v}, open(path, "w"), indent=1, ensure_ascii=False)
            if path not in shown:
                shown.add(path)
                print(f"VIOLATION property={ctx.prop} replay={path}")
                print("  " + json.dumps({k: v[k] for k in list(v)[:8]}, ensure_ascii=False)[:600])
    cov = {
        "states": max(ctx.tlc_states, 1),
        "transitions": max(ctx.tlc_distinct, 1),
        "traces_validated_against_impl": res.traces,
        "evaluations": max(res.evaluations, 1),
        "distinct_nontrivial": res.nontrivial,
        "rule": res.rule,
        "samples": res.samples or ["(no sample recorded)"],
        "exhaustive": res.exhaustive,
        "tlc_runs": ctx.tlc_runs,
    }
    if getattr(ctx, "dropped_records", 0):
        cov["records_dropped_as_too_expensive_for_tlc"] = ctx.dropped_records
    cov.update(res.extra)
    ev = {
        "property_id": ctx.prop, "tier": ctx.tier, "seed": ctx.seed, "level": res.level, "coverage": cov,
        "assumptions": res.assumptions, "wall_s": round(time.time() - ctx.t0, 1), "violations": len(new),
        "known_findings_observed": sorted(seen_known),
    }
    # evidence describes runs against /repo itself; runs against a scratch tree (VERIF_REPO) keep theirs apart
    evdir = os.path.join(VERIF, "evidence") if REPO == "/repo" else os.path.join(VERIF, ".scratch", "evidence-" + os.path.basename(REPO))
    os.makedirs(evdir, exist_ok=True)
    json.dump(ev, open(os.path.join(evdir, f"{ctx.prop}.json"), "w"), indent=1, ensure_ascii=False)
    ctx.log(f"done: evaluations={res.evaluations} nontrivial={res.nontrivial} traces={res.traces} "
            f"tlc_states={ctx.tlc_states} violations={len(new)} known={len(seen_known)} exit={rc}")
    return rc


def write_ndjson(path, recs):
    with open(path, "w") as f:
        for r in recs:
            f.write(json.dumps(r, ensure_ascii=False) + "\n")


def read_ndjson(path):
    return [json.loads(l) for l in open(path) if l.strip()]

package main

// Source-level pattern AST shared with the TLA+ specification (spec/RegexAST.tla).
// A pattern is a node table; node 1 (index 0 here) is the root; kids are 1-based
// indices; the table is in pre-order (a node precedes its descendants, children
// are in left-to-right order), so that "order of opening parentheses" is the
// order of node indices.  Every node carries every field so that TLC's Json
// module yields uniform records.

import (
	"fmt"
	"strings"
)

type Node struct {
	Op   string   `json:"op"`
	Rs   [][2]int `json:"rs"`   // chr: member ranges (code points)
	Neg  bool     `json:"neg"`  // chr: negated class
	Cls  string   `json:"cls"`  // sh: one of d D w W s S
	Min  int      `json:"min"`  // rep
	Max  int      `json:"max"`  // rep; -1 = unbounded
	Lazy bool     `json:"lazy"` // rep
	Kids []int    `json:"kids"` // 1-based
	G    int      `json:"g"`    // ref/condref by number: number as written (0 = by name)
	Nm   string   `json:"nm"`   // grp: name ("" = unnamed); ref/condref: name when G = 0
	On   []string `json:"on"`   // opt/optset: option letters switched on
	Off  []string `json:"off"`  // opt/optset: option letters switched off
}

type Pat []Node

func mk(op string) Node {
	return Node{Op: op, Rs: [][2]int{}, Kids: []int{}, On: []string{}, Off: []string{}}
}

// Builder assembles a table in pre-order.
type Builder struct{ P Pat }

func (b *Builder) add(n Node) int {
	if n.Rs == nil {
		n.Rs = [][2]int{}
	}
	if n.Kids == nil {
		n.Kids = []int{}
	}
	if n.On == nil {
		n.On = []string{}
	}
	if n.Off == nil {
		n.Off = []string{}
	}
	b.P = append(b.P, n)
	return len(b.P)
}

// Tree is a convenient pointer form used by generators; Flatten puts it in pre-order.
type Tree struct {
	N    Node
	Kids []*Tree
}

func T(op string, kids ...*Tree) *Tree { return &Tree{N: mk(op), Kids: kids} }
func Lit(c int) *Tree {
	t := T("chr")
	t.N.Rs = [][2]int{{c, c}}
	return t
}
func Class(neg bool, rs ...[2]int) *Tree {
	t := T("chr")
	t.N.Rs = rs
	t.N.Neg = neg
	return t
}
func Sh(c string) *Tree { t := T("sh"); t.N.Cls = c; return t }
func Rep(k *Tree, min, max int, lazy bool) *Tree {
	t := T("rep", k)
	t.N.Min, t.N.Max, t.N.Lazy = min, max, lazy
	return t
}
func Grp(name string, k *Tree) *Tree { t := T("grp", k); t.N.Nm = name; return t }
func RefN(n int) *Tree               { t := T("ref"); t.N.G = n; return t }
func RefName(s string) *Tree         { t := T("ref"); t.N.Nm = s; return t }
func letters(s string) []string {
	out := []string{}
	for _, c := range s {
		out = append(out, string(c))
	}
	return out
}
func Opt(on, off string, k *Tree) *Tree {
	t := T("opt", k)
	t.N.On, t.N.Off = letters(on), letters(off)
	return t
}
func OptSet(on, off string) *Tree {
	t := T("optset")
	t.N.On, t.N.Off = letters(on), letters(off)
	return t
}

func Flatten(t *Tree) Pat {
	b := &Builder{}
	var rec func(t *Tree) int
	rec = func(t *Tree) int {
		id := b.add(t.N)
		kids := make([]int, 0, len(t.Kids))
		for _, k := range t.Kids {
			kids = append(kids, rec(k))
		}
		b.P[id-1].Kids = kids
		return id
	}
	rec(t)
	return b.P
}

func Unflatten(p Pat) *Tree {
	var rec func(id int) *Tree
	rec = func(id int) *Tree {
		n := p[id-1]
		t := &Tree{N: n}
		for _, k := range n.Kids {
			t.Kids = append(t.Kids, rec(k))
		}
		return t
	}
	return rec(1)
}

// ---------------------------------------------------------------------------------------------
// Printer: node table -> pattern text.  It is deliberately literal: every node has exactly one
// spelling (plus the x-mode variant which inserts ignorable whitespace / comments), so that what is
// compiled is what the specification interprets.

type PrintOpts struct {
	X      bool // IgnorePatternWhitespace is in effect at top level: escape whitespace and '#', sprinkle blanks
	RE2    bool // named groups as (?P<name>
	XNoise int  // 0 none, 1 spaces, 2 spaces + comments (only honoured when X in effect at that point)
}

type printer struct {
	p   Pat
	o   PrintOpts
	sb  strings.Builder
	cnt int
}

func PrintPat(p Pat, o PrintOpts) string {
	pr := &printer{p: p, o: o}
	pr.node(1, 0, o.X)
	return pr.sb.String()
}

// precedence levels: 0 = alternation allowed, 1 = inside concatenation, 2 = quantifier operand
func (pr *printer) noise(x bool) {
	if !x || pr.o.XNoise == 0 {
		return
	}
	pr.cnt++
	switch pr.cnt % 3 {
	case 0:
		pr.sb.WriteString(" ")
	case 1:
		if pr.o.XNoise >= 2 {
			pr.sb.WriteString(" #c\n")
		} else {
			pr.sb.WriteString("\t")
		}
	}
}

func isMeta(c int) bool {
	switch c {
	case '\\', '*', '+', '?', '|', '{', '}', '[', ']', '(', ')', '^', '$', '.', '#', ' ':
		return true
	}
	return false
}

func escChar(c int, inClass bool) string {
	switch c {
	case '\n':
		return `\n`
	case '\r':
		return `\r`
	case '\t':
		return `\t`
	case '\f':
		return `\f`
	case '\v':
		return `\v`
	}
	if c < 0x20 || c == 0x7f {
		return fmt.Sprintf(`\x%02X`, c)
	}
	if inClass {
		switch c {
		case '\\', ']', '[', '^', '-':
			return `\` + string(rune(c))
		}
		return string(rune(c))
	}
	if isMeta(c) {
		return `\` + string(rune(c))
	}
	return string(rune(c))
}

func (pr *printer) class(n Node) { pr.classForm(n, false) }

// classForm prints a chr node; a node with a kid is a class with a subtraction [base-[sub]]
func (pr *printer) classForm(n Node, force bool) {
	if !force && len(n.Kids) == 0 && n.Cls == "" && !n.Neg && len(n.Rs) == 1 && n.Rs[0][0] == n.Rs[0][1] {
		pr.sb.WriteString(escChar(n.Rs[0][0], false))
		return
	}
	pr.sb.WriteString("[")
	if n.Neg {
		pr.sb.WriteString("^")
	}
	for _, r := range n.Rs {
		pr.sb.WriteString(escChar(r[0], true))
		if r[1] != r[0] {
			pr.sb.WriteString("-")
			pr.sb.WriteString(escChar(r[1], true))
		}
	}
	if n.Cls != "" { // a shorthand as a member of the class: [\w...]
		pr.sb.WriteString(`\` + n.Cls)
	}
	if len(n.Kids) > 0 {
		pr.sb.WriteString("-")
		pr.classForm(pr.p[n.Kids[0]-1], true)
	}
	pr.sb.WriteString("]")
}

func (pr *printer) branch(id int, x bool) {
	n := pr.p[id-1]
	hasOpt := n.Op == "opt" || n.Op == "optset"
	if n.Op == "cat" {
		for _, k := range n.Kids {
			if o := pr.p[k-1].Op; o == "opt" || o == "optset" {
				hasOpt = true
			}
		}
	}
	if n.Op == "rep" && pr.p[n.Kids[0]-1].Op == "opt" {
		hasOpt = true
	}
	if hasOpt {
		pr.sb.WriteString("(?:")
		pr.node(id, 0, x)
		pr.sb.WriteString(")")
		return
	}
	pr.node(id, 1, x)
}

func optLetters(on, off []string) string {
	s := strings.Join(on, "")
	if len(off) > 0 {
		s += "-" + strings.Join(off, "")
	}
	return s
}

// xAfter computes whether x-mode is in effect after applying on/off.
func xAfter(x bool, on, off []string) bool {
	for _, l := range on {
		if l == "x" {
			x = true
		}
	}
	for _, l := range off {
		if l == "x" {
			x = false
		}
	}
	return x
}

// node prints node id at precedence level lvl; x tells whether IgnorePatternWhitespace is in
// effect at this point.  It returns the x state after the node (only optset changes it).
func (pr *printer) node(id, lvl int, x bool) bool {
	n := pr.p[id-1]
	wrap := func(need bool, f func()) {
		if need {
			pr.sb.WriteString("(?:")
			f()
			pr.sb.WriteString(")")
		} else {
			f()
		}
	}
	switch n.Op {
	case "chr":
		pr.class(n)
	case "sh":
		pr.sb.WriteString(`\` + n.Cls)
	case "dot":
		pr.sb.WriteString(".")
	case "caret":
		pr.sb.WriteString("^")
	case "dollar":
		pr.sb.WriteString("$")
	case "A", "Z", "z", "b", "B", "G":
		pr.sb.WriteString(`\` + n.Op)
	case "empty":
		// an empty alternative / group body: prints nothing; as a quantifier operand it needs a group
		if lvl >= 2 {
			pr.sb.WriteString("(?:)")
		}
	case "cat":
		wrap(lvl >= 2, func() {
			xx := x
			for _, k := range n.Kids {
				xx = pr.node(k, 1, xx)
				pr.noise(xx)
			}
		})
	case "alt":
		wrap(lvl >= 1, func() {
			for i, k := range n.Kids {
				if i > 0 {
					pr.sb.WriteString("|")
				}
				pr.node(k, 0, x)
			}
		})
	case "rep":
		if lvl >= 2 {
			pr.sb.WriteString("(?:")
			defer pr.sb.WriteString(")")
		}
		pr.node(n.Kids[0], 2, x)
		pr.noise(x)
		switch {
		case n.Min == 0 && n.Max == -1:
			pr.sb.WriteString("*")
		case n.Min == 1 && n.Max == -1:
			pr.sb.WriteString("+")
		case n.Min == 0 && n.Max == 1:
			pr.sb.WriteString("?")
		case n.Max == -1:
			fmt.Fprintf(&pr.sb, "{%d,}", n.Min)
		case n.Max == n.Min:
			fmt.Fprintf(&pr.sb, "{%d}", n.Min)
		default:
			fmt.Fprintf(&pr.sb, "{%d,%d}", n.Min, n.Max)
		}
		if n.Lazy {
			pr.sb.WriteString("?")
		}
	case "grp":
		switch {
		case n.Nm == "":
			pr.sb.WriteString("(")
		case pr.o.RE2:
			pr.sb.WriteString("(?P<" + n.Nm + ">")
		default:
			pr.sb.WriteString("(?<" + n.Nm + ">")
		}
		pr.node(n.Kids[0], 0, x)
		pr.sb.WriteString(")")
	case "bal":
		// (?<cap-uncap>..): Nm = the group that receives the interval ("" = none), Cls = the group whose last capture is popped
		pr.sb.WriteString("(?<" + n.Nm + "-" + n.Cls + ">")
		pr.node(n.Kids[0], 0, x)
		pr.sb.WriteString(")")
	case "look", "nlook", "lookb", "nlookb", "atom":
		pr.sb.WriteString(map[string]string{"look": "(?=", "nlook": "(?!", "lookb": "(?<=", "nlookb": "(?<!", "atom": "(?>"}[n.Op])
		pr.node(n.Kids[0], 0, x)
		pr.sb.WriteString(")")
	case "ref":
		if n.G > 0 {
			// a following digit would extend the number: the caller's concatenation never puts a
			// digit literal right after (generators avoid digits); spelled \N
			fmt.Fprintf(&pr.sb, `\%d`, n.G)
		} else {
			pr.sb.WriteString(`\k<` + n.Nm + `>`)
		}
	case "condref":
		if n.G > 0 {
			fmt.Fprintf(&pr.sb, "(?(%d)", n.G)
		} else {
			pr.sb.WriteString("(?(" + n.Nm + ")")
		}
		pr.node(n.Kids[0], 1, x)
		pr.sb.WriteString("|")
		pr.node(n.Kids[1], 1, x)
		pr.sb.WriteString(")")
	case "condexp":
		// kids[0] is a look-around node used as the test; option groups are not allowed as direct
		// children of the conditional, so such branches are wrapped in (?: )
		pr.sb.WriteString("(?(")
		pr.node(n.Kids[0], 0, x)
		pr.sb.WriteString(")")
		pr.branch(n.Kids[1], x)
		pr.sb.WriteString("|")
		pr.branch(n.Kids[2], x)
		pr.sb.WriteString(")")
	case "opt":
		pr.sb.WriteString("(?" + optLetters(n.On, n.Off) + ":")
		pr.node(n.Kids[0], 0, xAfter(x, n.On, n.Off))
		pr.sb.WriteString(")")
	case "optset":
		pr.sb.WriteString("(?" + optLetters(n.On, n.Off) + ")")
		return xAfter(x, n.On, n.Off)
	default:
		panic("printer: unknown op " + n.Op)
	}
	return x
}

package main

// run-clock: conformance harness for C14.  Executes real-time histories of timed matches (derived
// from the behaviours of spec/Clock.tla: quick and catastrophic matches, idle gaps shorter and longer
// than timeout + slop, concurrent deadlines, StopTimeoutClock, and two interleavings TLC found as
// counter-examples of NoEarlyTimeout in the unrepaired design, forced here through the gate hooks).
// It records every clock event seen by the VerifOnPoint hook; spec/Obs_Clock.tla validates them.

import (
	"encoding/json"
	"flag"
	"fmt"
	"os"
	"strings"
	"sync"
	"time"

	regexp2 "github.com/dlclark/regexp2/v2"
)

type ClockCheck struct {
	History string  `json:"history"`
	What    string  `json:"what"`
	OK      bool    `json:"ok"`
	Hard    bool    `json:"hard"`
	Detail  string  `json:"detail"`
	Elapsed float64 `json:"elapsed_ms"`
}

type ClockEvent struct {
	Ev string `json:"ev"`
	A  int    `json:"a"`
	B  int    `json:"b"`
}

type clockHarness struct {
	mu     sync.Mutex
	events []ClockEvent
	checks []ClockCheck
	gates  map[string]chan struct{} // point -> released when closed
	hit    map[string]chan struct{} // point -> closed when a goroutine arrives
	gateG  map[string]int64
}

var catastrophic = `^(x+x+)+$`

func isTimeout(err error) bool { return err != nil && strings.Contains(err.Error(), "match timeout") }

// a catastrophic match that needs far longer than any timeout used here
func slowInput() string { return strings.Repeat("x", 40) + "!" }

func (h *clockHarness) record(hist, what string, ok, hard bool, elapsed time.Duration, detail string) {
	h.mu.Lock()
	h.checks = append(h.checks, ClockCheck{History: hist, What: what, OK: ok, Hard: hard, Detail: detail, Elapsed: float64(elapsed.Microseconds()) / 1000})
	h.mu.Unlock()
}

func (h *clockHarness) timedSlow(hist string, d time.Duration, period time.Duration) {
	re := regexp2.MustCompile(catastrophic)
	re.MatchTimeout = d
	t0 := time.Now()
	_, err := re.MatchString(slowInput())
	el := time.Since(t0)
	h.record(hist, "a match that would run much longer reports a timeout", isTimeout(err), true, el, fmt.Sprint(err))
	h.record(hist, "the timeout is not reported before half of the timeout has elapsed", el >= d/2, true, el, fmt.Sprintf("timeout %v, reported after %v", d, el))
	h.record(hist, "the timeout is reported within d + 20 periods + 250ms", el <= d+20*period+250*time.Millisecond, false, el, fmt.Sprintf("timeout %v, reported after %v", d, el))
}

func (h *clockHarness) timedQuick(hist string, d time.Duration) {
	re := regexp2.MustCompile(`a+b`)
	re.MatchTimeout = d
	t0 := time.Now()
	ok, err := re.MatchString("xxaaab")
	h.record(hist, "a match that finishes well inside the timeout does not report one", err == nil && ok, true, time.Since(t0), fmt.Sprint(err))
}

func clockRunning() bool {
	_, _, running, _ := regexp2.VerifClockState()
	return running
}

func waitClockStopped(max time.Duration) bool {
	deadline := time.Now().Add(max)
	for time.Now().Before(deadline) {
		if !clockRunning() {
			return true
		}
		time.Sleep(5 * time.Millisecond)
	}
	return !clockRunning()
}

func init() {
	commands["run-clock"] = func(args []string) int {
		fs := flag.NewFlagSet("run-clock", flag.ExitOnError)
		thorough := fs.Bool("thorough", false, "more repetitions, longer gaps, concurrent StopTimeoutClock")
		fs.Parse(args)
		period := time.Millisecond
		regexp2.SetTimeoutCheckPeriod(period)
		h := &clockHarness{gates: map[string]chan struct{}{}, hit: map[string]chan struct{}{}}
		var gmu sync.Mutex
		regexp2.SetVerifOnPoint(func(point string, obj any, a, b int) {
			if strings.HasPrefix(point, "clock") {
				h.mu.Lock()
				if len(h.events) < 200000 {
					h.events = append(h.events, ClockEvent{point, a, b})
				}
				h.mu.Unlock()
				return
			}
			if !strings.HasPrefix(point, "deadline") {
				return
			}
			gmu.Lock()
			gate, hit := h.gates[point], h.hit[point]
			if gate != nil {
				delete(h.gates, point) // one goroutine per armed gate
				delete(h.hit, point)
			}
			gmu.Unlock()
			if gate != nil {
				close(hit)
				<-gate
			}
		})
		arm := func(point string) (hit chan struct{}, release func()) {
			g, hc := make(chan struct{}), make(chan struct{})
			gmu.Lock()
			h.gates[point], h.hit[point] = g, hc
			gmu.Unlock()
			return hc, func() { close(g) }
		}

		reps := 1
		if *thorough {
			reps = 3
		}
		for rep := 0; rep < reps; rep++ {
			d := []time.Duration{120 * time.Millisecond, 60 * time.Millisecond, 250 * time.Millisecond}[rep%3]
			// H1/H2: quick and catastrophic timed matches back to back
			h.timedQuick("H1 quick matches", d)
			h.timedQuick("H1 quick matches", d)
			h.timedSlow("H2 catastrophic match", d, period)
			h.timedQuick("H1 quick matches", d)
			// H3: idle gap shorter than the timeout, then again
			time.Sleep(d / 3)
			h.timedSlow("H3 after a short idle gap", d, period)
			// H4: the clock goroutine exits once all deadlines (+ 1 s slop) have passed, and is restarted on demand
			stopped := waitClockStopped(d + 1500*time.Millisecond + 200*period)
			h.record("H4 clock exits", "the clock goroutine exits after the last deadline + slop", stopped, true, 0, "")
			time.Sleep(300 * time.Millisecond) // idle longer than timeout + slop: the stored time is now stale
			h.timedQuick("H5 after an idle gap longer than timeout + slop", d)
			h.record("H4 clock exits", "the clock goroutine is restarted on demand", clockRunning(), true, 0, "")
			stopped = waitClockStopped(d + 1500*time.Millisecond + 200*period)
			time.Sleep(250 * time.Millisecond)
			h.timedSlow("H5 after an idle gap longer than timeout + slop", d, period)

			// H6: concurrent deadlines with different timeouts
			var wg sync.WaitGroup
			for i, dd := range []time.Duration{80 * time.Millisecond, 160 * time.Millisecond, 40 * time.Millisecond} {
				wg.Add(1)
				go func(i int, dd time.Duration) {
					defer wg.Done()
					h.timedSlow(fmt.Sprintf("H6 concurrent deadlines (%v)", dd), dd, period)
				}(i, dd)
			}
			wg.Wait()

			// H7 (TLC counter-example 1 of the unrepaired design): after an idle period, caller A has read the
			// clock but not yet compared it with clockEnd while caller B refreshes and restarts the clock.
			waitClockStopped(3 * time.Second)
			time.Sleep(300 * time.Millisecond)
			hit, release := arm("deadlineRead2")
			done := make(chan struct{})
			go func() {
				h.timedSlow("H7 forced interleaving: A between its two reads while B restarts the clock", 150*time.Millisecond, period)
				close(done)
			}()
			select {
			case <-hit:
			case <-time.After(2 * time.Second):
				h.record("H7", "gate deadlineRead2 reached", false, true, 0, "hook not reached (drift)")
			}
			h.timedQuick("H7 (caller B)", 150*time.Millisecond)
			release()
			<-done

			// H8 (TLC counter-example 2): caller B is delayed between computing its deadline and extending the
			// clock while the clock is stopped; A arrives right after B restarted the clock.
			waitClockStopped(3 * time.Second)
			time.Sleep(100 * time.Millisecond)
			hit, release = arm("deadlineSlow")
			doneB := make(chan struct{})
			go func() {
				h.timedQuick("H8 (caller B, delayed before extendClock)", 5*time.Second)
				close(doneB)
			}()
			select {
			case <-hit:
			case <-time.After(2 * time.Second):
				h.record("H8", "gate deadlineSlow reached", false, true, 0, "hook not reached (drift)")
			}
			time.Sleep(300 * time.Millisecond)
			release()
			<-doneB
			h.timedSlow("H8 forced interleaving: A right after B restarted a stale clock", 150*time.Millisecond, period)

			// H11: two deadlines start while the clock is stopped; the caller with the SHORTER timeout (S) is held between
			// computing its deadline and extending the clock, the one with the LONGER timeout (L) restarts the clock first.
			// clockEnd must never move backwards, or the clock stops before L's deadline and L's timeout never fires.
			if rep == 0 {
				regexp2.StopTimeoutClock() // H8's caller B asked for 5 s: the clock would otherwise run on
				time.Sleep(100 * time.Millisecond)
				hit, release = arm("deadlineSlow")
				doneS := make(chan struct{})
				go func() {
					h.timedQuick("H11 (caller S, held before extendClock)", 600*time.Millisecond)
					close(doneS)
				}()
				select {
				case <-hit:
				case <-time.After(2 * time.Second):
					h.record("H11", "gate deadlineSlow reached", false, true, 0, "hook not reached (drift)")
				}
				dL := 2500 * time.Millisecond
				resL := make(chan error, 1)
				t0 := time.Now()
				go func() {
					re := regexp2.MustCompile(catastrophic)
					re.MatchTimeout = dL
					_, err := re.MatchString(slowInput())
					resL <- err
				}()
				time.Sleep(60 * time.Millisecond) // L has restarted the clock and is running
				release()
				<-doneS
				var errL error
				select {
				case errL = <-resL:
				case <-time.After(dL + time.Second - time.Since(t0)):
					errL = fmt.Errorf("still running %v after its %v timeout", time.Since(t0).Round(time.Millisecond), dL)
					h.timedQuick("H11 (restarting the clock)", 50*time.Millisecond) // lets the stuck match see the time again
					<-resL
				}
				el := time.Since(t0)
				h.record("H11 forced interleaving: a shorter deadline extends the clock after a longer one", "the longer match still reports its timeout", isTimeout(errL), true, el, fmt.Sprint(errL))
			}

			// H9: StopTimeoutClock between matches
			regexp2.StopTimeoutClock()
			h.record("H9 StopTimeoutClock between matches", "the clock goroutine is gone after StopTimeoutClock", !clockRunning(), true, 0, "")
			h.timedQuick("H9 StopTimeoutClock between matches", d)
			h.timedSlow("H9 StopTimeoutClock between matches", d, period)
			regexp2.StopTimeoutClock()
			time.Sleep(50 * time.Millisecond)
			h.timedSlow("H9 StopTimeoutClock between matches", d, period)
		}
		if *thorough {
			// H10: StopTimeoutClock while a deadline is live (the design leaves that deadline without a clock
			// until another timed match starts; recorded, see known findings)
			re := regexp2.MustCompile(catastrophic)
			re.MatchTimeout = 200 * time.Millisecond
			res := make(chan error, 1)
			t0 := time.Now()
			go func() { _, err := re.MatchString(strings.Repeat("x", 40) + "!"); res <- err }()
			time.Sleep(50 * time.Millisecond)
			regexp2.StopTimeoutClock()
			var err error
			select {
			case err = <-res:
			case <-time.After(20 * time.Second):
				err = fmt.Errorf("still running after 20s")
			}
			el := time.Since(t0)
			h.record("H10 StopTimeoutClock during a live deadline", "the match still reports its timeout within d + 20 periods + 250ms", isTimeout(err) && el <= 200*time.Millisecond+20*period+250*time.Millisecond, true, el, fmt.Sprint(err))
		}
		regexp2.SetVerifOnPoint(nil)
		out := map[string]any{"checks": h.checks, "events": h.events, "period_ms": 1}
		enc := json.NewEncoder(os.Stdout)
		enc.SetEscapeHTML(false)
		enc.Encode(out)
		return 0
	}
}

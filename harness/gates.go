package main

import (
	"os"
	"strings"

	"github.com/dlclark/regexp2/v2/syntax"
)

// applyGates switches on the rewrite gates named in VERIF_GATES (comma separated); see /repo/syntax/verif_on.go.
func applyGates() {
	for _, g := range strings.Split(os.Getenv("VERIF_GATES"), ",") {
		if g = strings.TrimSpace(g); g != "" {
			syntax.VerifSetGate(g, true)
		}
	}
}

package main

// Random generators of source ASTs and of pattern-directed inputs.  All randomness comes from a
// PCG seeded with VERIF_SEED, so a run is reproducible.

import (
	"math/rand/v2"
	"os"
	"strconv"
)

func seedFromEnv() uint64 {
	if s := os.Getenv("VERIF_SEED"); s != "" {
		if v, err := strconv.ParseInt(s, 10, 64); err == nil {
			return uint64(v)
		}
	}
	return 1
}

func newRand(seed uint64, stream uint64) *rand.Rand { return rand.New(rand.NewPCG(seed, stream)) }

type GenCfg struct {
	MaxDepth    int
	Letters     []int // literal alphabet of the pattern
	Nullable    bool  // allow nullable operands of quantifiers (inside the exact oracle: RegexSem has the empty-iteration rule)
	NestedRep   bool  // allow a quantifier directly on a quantified item (outside the C01 fragment)
	Lookbehind  bool
	Lookahead   bool
	Refs        bool
	Conds       bool
	Anchors     bool
	Atomic      bool
	InlineOpts  string // letters that may appear in scoped (?o:..) / (?-o:..) groups and inline (?o) items
	Named       bool
	Subtraction bool // classes with a subtraction [base-[sub]]
	Shorthands  bool
	Dot         bool
	G           bool // \G
	NumNames    bool // explicitly numbered groups (?<7>..) (sparse numbering; outside the exact oracle)
	Balancing   bool // balancing groups (?<a-b>..) (outside the exact oracle)
	MaxGroups   int
	MaxRepBound int
	MaxNodes    int // item budget per pattern
}

var baseLetters = []int{'a', 'b', 'c'}

func cfgC01() GenCfg {
	return GenCfg{MaxDepth: 4, Letters: []int{'a', 'b', 'c', 'A', 'B', 0xe9, 0xc9, '_', ' ', '\n', '-', 0x1F600, 0x301},
		Lookbehind: true, Lookahead: true, Refs: true, Conds: true, Anchors: true, Atomic: true,
		InlineOpts: "ims", Named: true, Shorthands: true, Subtraction: true, Nullable: true, NestedRep: true, Dot: true, G: true, MaxGroups: 5, MaxRepBound: 3, MaxNodes: 12}
}

type Gen struct {
	r   *rand.Rand
	c   GenCfg
	ng  int // groups created so far
	nms []string
	bud int  // remaining node budget
	N   bool // the pattern will be compiled with ExplicitCapture
}

func (g *Gen) pick(n int) int { return g.r.IntN(n) }
func (g *Gen) chance(p float64) bool {
	return g.r.Float64() < p
}

func (g *Gen) letter() int { return g.c.Letters[g.pick(len(g.c.Letters))] }

func (g *Gen) leaf() *Tree {
	t := g.leaf0()
	if g.c.Subtraction && t.N.Op == "chr" && (t.N.Neg || len(t.N.Rs) > 1 || t.N.Rs[0][0] != t.N.Rs[0][1]) && g.chance(0.2) {
		// [base-[sub]]: the subtracted class is the node's only kid
		var sub *Tree
		switch g.pick(4) {
		case 0:
			sub = Class(false, [2]int{'a', 'b'})
		case 1:
			sub = Class(true, [2]int{'a', 'a'}, [2]int{'c', 'c'})
		default:
			l := g.c.Letters[g.pick(min(3, len(g.c.Letters)))]
			sub = Class(false, [2]int{l, l})
		}
		t.Kids = []*Tree{sub}
		if g.chance(0.15) {
			// everything but the subtracted class
			t.N.Rs, t.N.Neg = [][2]int{{0, 0x10FFFF}}, false
		} else if g.c.Shorthands && g.chance(0.25) {
			// a base made of a shorthand only, or of a shorthand next to the ranges: [\w-[a]], [\da-b-[b]]
			t.N.Cls = []string{"w", "d", "s", "W"}[g.pick(4)]
			if g.chance(0.5) {
				t.N.Rs, t.N.Neg = [][2]int{}, false
			}
		}
	}
	return t
}

func (g *Gen) leaf0() *Tree {
	for {
		switch g.pick(10) {
		case 0, 1, 2, 3:
			// bias to the first three letters so that patterns and inputs collide often
			if g.chance(0.7) {
				return Lit(g.c.Letters[g.pick(min(3, len(g.c.Letters)))])
			}
			return Lit(g.letter())
		case 4:
			// class of two or three members / a small range
			a, b := g.letter(), g.letter()
			if g.chance(0.3) {
				return Class(g.chance(0.3), [2]int{'a', 'b'})
			}
			if a == b {
				return Class(g.chance(0.5), [2]int{a, a}, [2]int{'c', 'c'})
			}
			if a > b {
				a, b = b, a
			}
			return Class(g.chance(0.3), [2]int{a, a}, [2]int{b, b})
		case 5:
			c := g.c.Letters[g.pick(min(3, len(g.c.Letters)))]
			return Class(true, [2]int{c, c})
		case 6:
			if g.c.Dot {
				return T("dot")
			}
		case 7:
			if g.c.Shorthands {
				return Sh([]string{"d", "D", "w", "W", "s", "S"}[g.pick(6)])
			}
		default:
			return Lit(g.c.Letters[g.pick(min(3, len(g.c.Letters)))])
		}
	}
}

func (g *Gen) anchor() *Tree {
	ops := []string{"caret", "dollar", "A", "Z", "z", "b", "B"}
	if g.c.G {
		ops = append(ops, "G")
	}
	return T(ops[g.pick(len(ops))])
}

// nullable: can the subtree match the empty string (syntactic over-approximation is fine: it is
// only used to keep quantifier operands inside the C01 fragment)
func nullable(t *Tree) bool {
	switch t.N.Op {
	case "chr", "sh", "dot":
		return false
	case "cat":
		for _, k := range t.Kids {
			if !nullable(k) {
				return false
			}
		}
		return true
	case "alt":
		for _, k := range t.Kids {
			if nullable(k) {
				return true
			}
		}
		return false
	case "rep":
		return t.N.Min == 0 || nullable(t.Kids[0])
	case "grp", "atom", "opt", "bal":
		return nullable(t.Kids[0])
	case "condref":
		return nullable(t.Kids[0]) || nullable(t.Kids[1])
	case "condexp":
		return nullable(t.Kids[1]) || nullable(t.Kids[2])
	case "ref":
		return true
	}
	return true // anchors, look-arounds, empty, optset
}

// stripWrappers removes the nodes the reducer sees through when it multiplies directly nested
// quantifiers; under ExplicitCapture an unnamed group is an ordinary non-capturing group.
func stripWrappers(t *Tree, explicitCapture bool) *Tree {
	for t.N.Op == "opt" || t.N.Op == "atom" || (t.N.Op == "cat" && len(t.Kids) == 1) ||
		(explicitCapture && t.N.Op == "grp" && t.N.Nm == "") {
		t = t.Kids[0]
	}
	return t
}

func (g *Gen) quant(k *Tree) *Tree {
	lazy := g.chance(0.3)
	switch g.pick(6) {
	case 0:
		return Rep(k, 0, -1, lazy)
	case 1:
		return Rep(k, 1, -1, lazy)
	case 2:
		return Rep(k, 0, 1, lazy)
	case 3:
		m := g.pick(g.c.MaxRepBound + 1)
		mx := m + g.pick(3)
		if mx == 0 && !g.c.Nullable {
			// x{0} vanishes in the reducer and can leave a quantified item directly under another quantifier
			mx = 1
		}
		return Rep(k, m, mx, lazy)
	case 4:
		m := 1 + g.pick(g.c.MaxRepBound)
		return Rep(k, m, m, lazy)
	default:
		return Rep(k, g.pick(g.c.MaxRepBound+1), -1, lazy)
	}
}

func (g *Gen) newName() string {
	// reuse an existing name sometimes (duplicate names share one group number)
	if len(g.nms) > 0 && g.chance(0.15) {
		return g.nms[g.pick(len(g.nms))]
	}
	if g.c.NumNames && g.chance(0.35) {
		// an explicitly numbered group: numbering becomes sparse and the regexp carries a number -> slot map
		nm := []string{"3", "7", "12", "2", "5"}[g.pick(5)]
		for _, x := range g.nms {
			if x == nm {
				return nm
			}
		}
		g.nms = append(g.nms, nm)
		return nm
	}
	nm := []string{"n", "m", "k", "w1", "Q"}[len(g.nms)%5]
	if len(g.nms) >= 5 {
		nm += strconv.Itoa(len(g.nms))
	}
	g.nms = append(g.nms, nm)
	return nm
}

// item: an atom, possibly quantified
func (g *Gen) item(d int) *Tree {
	var a *Tree
	roll := g.pick(20)
	g.bud--
	switch {
	case d <= 0 || roll < 7 || g.bud <= 0:
		a = g.leaf()
	case roll < 10 && g.ng < g.c.MaxGroups:
		g.ng++
		name := ""
		if g.c.Named && g.chance(0.3) {
			name = g.newName()
		}
		a = Grp(name, nil)
		a.Kids = []*Tree{g.alt(d - 1)}
	case roll < 11 && g.c.Balancing && len(g.nms) > 0 && g.chance(0.5):
		// balancing group: pops the last capture of an existing named group (and optionally captures the interval)
		nm := g.nms[g.pick(len(g.nms))]
		a = T("bal", g.alt(d-1))
		a.N.Cls = nm
		if !g.chance(0.5) {
			a.N.Nm = "z" + nm
		}
	case roll < 12:
		a = g.seq(d-1, 2) // printed with (?: ) when quantified
	case roll < 13 && g.c.Atomic:
		a = T("atom", g.alt(d-1))
	case roll < 14 && g.c.Refs:
		a = T("ref") // target assigned later
	case roll < 15 && g.c.InlineOpts != "":
		l := string(g.c.InlineOpts[g.pick(len(g.c.InlineOpts))])
		if g.chance(0.5) {
			a = Opt(l, "", g.alt(d-1))
		} else {
			a = Opt("", l, g.alt(d-1))
		}
	default:
		a = g.altNode(d - 1)
	}
	if g.chance(0.35) {
		inner := stripWrappers(a, g.N)
		okNull := g.c.Nullable || !nullable(a)
		okNest := g.c.NestedRep || inner.N.Op != "rep"
		if okNull && okNest && a.N.Op != "ref" {
			return g.quant(a)
		}
		if a.N.Op == "ref" && g.c.Nullable {
			return g.quant(a)
		}
	}
	return a
}

func (g *Gen) zero(d int) *Tree {
	roll := g.pick(10)
	g.bud--
	if g.bud <= 0 {
		if g.c.Anchors {
			return g.anchor()
		}
		return g.leaf()
	}
	switch {
	case roll < 4 && g.c.Anchors:
		return g.anchor()
	case roll < 6 && g.c.Lookahead:
		return T([]string{"look", "nlook"}[g.pick(2)], g.alt(d-1))
	case roll < 8 && g.c.Lookbehind:
		return T([]string{"lookb", "nlookb"}[g.pick(2)], g.alt(d-1))
	case roll < 9 && g.c.Conds && d > 0:
		if g.chance(0.5) && g.c.Refs {
			return T("condref", g.seq(d-1, 2), g.seq(d-1, 2))
		}
		var test *Tree
		ops := []string{}
		if g.c.Lookahead {
			ops = append(ops, "look", "nlook")
		}
		if g.c.Lookbehind {
			ops = append(ops, "lookb", "nlookb")
		}
		if len(ops) == 0 {
			return g.leaf()
		}
		test = T(ops[g.pick(len(ops))], g.seq(d-1, 2))
		return T("condexp", test, g.seq(d-1, 2), g.seq(d-1, 2))
	}
	return g.leaf()
}

func (g *Gen) seq(d, maxLen int) *Tree {
	n := 1 + g.pick(maxLen)
	var kids []*Tree
	for i := 0; i < n; i++ {
		if g.chance(0.18) {
			kids = append(kids, g.zero(d))
		} else {
			kids = append(kids, g.item(d))
		}
	}
	if len(kids) == 1 {
		return kids[0]
	}
	return T("cat", kids...)
}

func (g *Gen) altNode(d int) *Tree {
	n := 2 + g.pick(2)
	var kids []*Tree
	for i := 0; i < n; i++ {
		if g.chance(0.08) {
			kids = append(kids, T("empty"))
		} else {
			kids = append(kids, g.seq(d, 3))
		}
	}
	return T("alt", kids...)
}

func (g *Gen) alt(d int) *Tree {
	if d > 0 && g.chance(0.3) {
		return g.altNode(d)
	}
	return g.seq(d, 3)
}

// groupInfo walks the tree with the option environment and returns the number of capturing groups
// and the list of group names in numbering order (generator-side mirror of Options.tla; TLC
// re-checks well-formedness, a disagreement is a harness error, never a violation).
func groupInfo(t *Tree, globalN bool) (unnamed int, names []string) {
	seen := map[string]bool{}
	var rec func(t *Tree, n bool)
	rec = func(t *Tree, n bool) {
		switch t.N.Op {
		case "bal":
			if t.N.Nm != "" && !seen[t.N.Nm] {
				seen[t.N.Nm] = true
				names = append(names, t.N.Nm)
			}
		case "grp":
			if t.N.Nm != "" {
				if !seen[t.N.Nm] {
					seen[t.N.Nm] = true
					names = append(names, t.N.Nm)
				}
			} else if !n {
				unnamed++
			}
		case "opt":
			for _, l := range t.N.On {
				if l == "n" {
					n = true
				}
			}
			for _, l := range t.N.Off {
				if l == "n" {
					n = false
				}
			}
		}
		if t.N.Op == "cat" {
			nn := n
			for _, k := range t.Kids {
				if k.N.Op == "optset" {
					for _, l := range k.N.On {
						if l == "n" {
							nn = true
						}
					}
					for _, l := range k.N.Off {
						if l == "n" {
							nn = false
						}
					}
				}
				rec(k, nn)
			}
			return
		}
		for _, k := range t.Kids {
			rec(k, n)
		}
	}
	rec(t, globalN)
	return
}

// resolveRefs assigns targets to ref / condref nodes; with no capturing group they become literals.
func (g *Gen) resolveRefs(t *Tree, globalN bool) {
	un, names := groupInfo(t, globalN)
	total := un + len(names)
	var rec func(t *Tree)
	rec = func(t *Tree) {
		if t.N.Op == "ref" || t.N.Op == "condref" {
			if total == 0 {
				if t.N.Op == "ref" {
					*t = *Lit('a')
				} else {
					*t = *T("cat", t.Kids[0], t.Kids[1])
				}
			} else {
				k := 1 + g.pick(total)
				t.N.G, t.N.Nm = k, ""
				if k > un && g.chance(0.6) {
					t.N.G, t.N.Nm = 0, names[k-un-1]
				}
			}
		}
		for _, k := range t.Kids {
			rec(k)
		}
	}
	rec(t)
}

func (g *Gen) Pattern() *Tree {
	g.ng, g.nms = 0, nil
	g.bud = 3 + g.pick(g.c.MaxNodes)
	return g.alt(g.c.MaxDepth)
}

// BalPattern: a named group and, later in the sequence, a balancing group that pops it - with nothing else
// referring to the popped name (the general generator produces this shape only rarely)
func (g *Gen) BalPattern(rtl bool) *Tree {
	g.ng, g.nms = 0, nil
	g.bud = 3 + g.pick(g.c.MaxNodes)
	nm := g.newName()
	g.ng++
	piece := func() *Tree {
		var kids []*Tree
		for i := 1 + g.pick(2); i > 0; i-- {
			l := g.leaf()
			if g.chance(0.3) {
				l = Rep(l, g.pick(2), []int{1, 2, -1}[g.pick(3)], g.chance(0.3))
			}
			kids = append(kids, l)
		}
		if len(kids) == 1 {
			return kids[0]
		}
		return T("cat", kids...)
	}
	var open *Tree = Grp(nm, piece())
	if g.chance(0.3) {
		open = Rep(open, 1, -1, g.chance(0.2))
	}
	var bal *Tree = T("bal", piece())
	bal.N.Cls = nm
	switch g.pick(4) {
	case 0, 1:
		bal.N.Nm = "z" + nm
	case 2:
		bal.N.Nm = nm // pops and pushes the same group
	}
	if g.chance(0.3) {
		bal = Rep(bal, g.pick(2), -1, g.chance(0.2))
	}
	var kids []*Tree
	add := func(t *Tree) {
		if t.N.Op == "cat" {
			kids = append(kids, t.Kids...)
		} else {
			kids = append(kids, t)
		}
	}
	if g.chance(0.4) {
		add(piece())
	}
	add(open)
	if g.chance(0.4) {
		add(piece())
	}
	add(bal)
	if g.chance(0.4) {
		add(g.item(1))
	}
	if rtl { // a right-to-left pattern meets its items from the right: the opening group has to come last
		for i, j := 0, len(kids)-1; i < j; i, j = i+1, j-1 {
			kids[i], kids[j] = kids[j], kids[i]
		}
	}
	return T("cat", kids...)
}

// SparsePattern: explicitly numbered groups that leave gaps (the Regexp then carries a number -> slot map), next to
// unnamed and named ones, and a reference or conditional on one of them - the shape in which slot and number differ
func (g *Gen) SparsePattern(rtl bool) *Tree {
	g.ng, g.nms = 0, nil
	g.bud = 3 + g.pick(g.c.MaxNodes)
	piece := func() *Tree {
		l := g.leaf()
		if g.chance(0.3) {
			l = Rep(l, g.pick(2), []int{1, 2, -1}[g.pick(3)], g.chance(0.3))
		}
		return l
	}
	nums := [][]string{{"2", "4"}, {"3", "7"}, {"2", "5", "9"}, {"4"}, {"1", "3"}, {"12", "2"}}[g.pick(6)]
	var kids []*Tree
	var names []string
	if g.chance(0.4) {
		kids = append(kids, Grp("", piece()))
	}
	for _, n := range nums {
		body := piece()
		var grp *Tree = Grp(n, body)
		if g.chance(0.25) {
			grp = Rep(grp, g.pick(2), 2, g.chance(0.3))
		}
		kids = append(kids, grp)
		names = append(names, n)
		if g.chance(0.3) {
			kids = append(kids, piece())
		}
	}
	if g.chance(0.4) {
		nm := g.newName()
		kids = append(kids, Grp(nm, piece()))
		names = append(names, nm)
	}
	target := names[g.pick(len(names))]
	switch g.pick(4) {
	case 0, 1:
		r := T("ref")
		r.N.Nm = target
		kids = append(kids, r)
	case 2:
		c := T("condref", piece(), piece())
		c.N.Nm = target
		kids = append(kids, c)
	}
	if g.chance(0.4) {
		kids = append(kids, piece())
	}
	if rtl {
		for i, j := 0, len(kids)-1; i < j; i, j = i+1, j-1 {
			kids[i], kids[j] = kids[j], kids[i]
		}
	}
	return T("cat", kids...)
}

// ---------------------------------------------------------------------------------------------
// inputs

// sampleMatch walks the AST producing a string the pattern plausibly matches (look-arounds,
// anchors and references are ignored or approximated - the result is a seed for perturbation).
func (g *Gen) sampleMatch(t *Tree, out *[]int, caps map[*Tree][]int) {
	switch t.N.Op {
	case "chr":
		if !t.N.Neg && (len(t.N.Rs) == 0 || (t.N.Cls != "" && g.chance(0.5))) {
			// a class whose base is (also) a shorthand
			m := map[string][]int{"d": {'1', '7'}, "w": {'a', 'b', '_', '5', 0xe9}, "W": {' ', '-', '\n'}, "s": {' ', '\n', '\t'}}[t.N.Cls]
			if len(m) == 0 {
				m = []int{'a'}
			}
			*out = append(*out, m[g.pick(len(m))])
		} else if !t.N.Neg {
			r := t.N.Rs[g.pick(len(t.N.Rs))]
			*out = append(*out, r[0]+g.pick(r[1]-r[0]+1))
		} else {
			for i := 0; i < 10; i++ {
				c := g.letter()
				in := false
				for _, r := range t.N.Rs {
					if c >= r[0] && c <= r[1] {
						in = true
					}
				}
				if !in {
					*out = append(*out, c)
					return
				}
			}
			*out = append(*out, 'z')
		}
	case "sh":
		m := map[string][]int{"d": {'1', '7', 0x663}, "D": {'a', ' ', '_'}, "w": {'a', '_', '5', 0xe9, 0x301}, "W": {' ', '-', '\n', 0x1F600},
			"s": {' ', '\n', '\t', 0xa0}, "S": {'a', '-', '1'}}[t.N.Cls]
		*out = append(*out, m[g.pick(len(m))])
	case "dot":
		*out = append(*out, g.letter())
	case "cat":
		for _, k := range t.Kids {
			g.sampleMatch(k, out, caps)
		}
	case "alt":
		g.sampleMatch(t.Kids[g.pick(len(t.Kids))], out, caps)
	case "rep":
		n := t.N.Min
		if t.N.Max < 0 {
			n += g.pick(3)
		} else if t.N.Max > t.N.Min {
			n += g.pick(t.N.Max - t.N.Min + 1)
		}
		for i := 0; i < n; i++ {
			g.sampleMatch(t.Kids[0], out, caps)
		}
	case "grp":
		st := len(*out)
		g.sampleMatch(t.Kids[0], out, caps)
		caps[t] = append([]int{}, (*out)[st:]...)
	case "atom", "opt", "bal":
		g.sampleMatch(t.Kids[0], out, caps)
	case "ref":
		// repeat some earlier capture text
		for _, v := range caps {
			*out = append(*out, v...)
			break
		}
	case "condref":
		g.sampleMatch(t.Kids[g.pick(2)], out, caps)
	case "condexp":
		g.sampleMatch(t.Kids[1+g.pick(2)], out, caps)
	}
}

func (g *Gen) perturb(s []int, alphabet []int) []int {
	out := append([]int{}, s...)
	n := g.pick(3)
	for i := 0; i < n; i++ {
		switch g.pick(4) {
		case 0: // substitute
			if len(out) > 0 {
				out[g.pick(len(out))] = alphabet[g.pick(len(alphabet))]
			}
		case 1: // delete
			if len(out) > 0 {
				k := g.pick(len(out))
				out = append(out[:k], out[k+1:]...)
			}
		case 2: // insert
			k := g.pick(len(out) + 1)
			out = append(out[:k], append([]int{alphabet[g.pick(len(alphabet))]}, out[k:]...)...)
		case 3: // flip case of an ASCII letter
			if len(out) > 0 {
				k := g.pick(len(out))
				c := out[k]
				if c >= 'a' && c <= 'z' {
					out[k] = c - 32
				} else if c >= 'A' && c <= 'Z' {
					out[k] = c + 32
				}
			}
		}
	}
	return out
}

// Inputs returns n pattern-directed inputs of at most maxLen runes.
func (g *Gen) Inputs(t *Tree, n, maxLen int, alphabet []int) [][]int {
	seen := map[string]bool{}
	var res [][]int
	// a pattern whose matches are longer than the bound (fixed counts beyond the analyzers' cut-offs) gets room for one match
	var one []int
	g.sampleMatch(t, &one, map[*Tree][]int{})
	if len(one)+3 > maxLen {
		maxLen = min(len(one)+3, 48)
	}
	for tries := 0; len(res) < n && tries < n*6; tries++ {
		var s []int
		switch g.pick(9) {
		case 8: // runs of the first two letters: near-misses and overlapping occurrences of literals
			l := 1 + g.pick(maxLen)
			for i := 0; i < l; i++ {
				if g.chance(0.75) {
					s = append(s, alphabet[0])
				} else {
					s = append(s, alphabet[g.pick(min(3, len(alphabet)))])
				}
			}
		case 0: // pure noise
			l := g.pick(maxLen + 1)
			for i := 0; i < l; i++ {
				s = append(s, alphabet[g.pick(len(alphabet))])
			}
		default:
			pre := g.pick(3)
			for i := 0; i < pre; i++ {
				s = append(s, alphabet[g.pick(len(alphabet))])
			}
			g.sampleMatch(t, &s, map[*Tree][]int{})
			if g.chance(0.5) {
				// a second occurrence
				s = append(s, alphabet[g.pick(len(alphabet))])
				g.sampleMatch(t, &s, map[*Tree][]int{})
			}
			post := g.pick(3)
			for i := 0; i < post; i++ {
				s = append(s, alphabet[g.pick(len(alphabet))])
			}
			if g.chance(0.7) {
				s = g.perturb(s, alphabet)
			}
		}
		if len(s) > maxLen {
			s = s[:maxLen]
		}
		if s == nil {
			s = []int{}
		}
		key := string(intsToRunes(s))
		if !seen[key] {
			seen[key] = true
			res = append(res, s)
		}
	}
	return res
}

func intsToRunes(s []int) []rune {
	r := make([]rune, len(s))
	for i, c := range s {
		r[i] = rune(c)
	}
	return r
}

func runesToInts(r []rune) []int {
	s := make([]int, len(r))
	for i, c := range r {
		s[i] = int(c)
	}
	return s
}

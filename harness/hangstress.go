package main

// run-hangstress: many goroutines issue timed matches (short MatchTimeout) on simple and on catastrophic patterns;
// every call is watched.  A call that does not return is a liveness failure of the shared timeout clock (C14) or of
// the pools (C11).  Development aid and thorough-tier leg.

import (
	"encoding/json"
	"flag"
	"fmt"
	"os"
	"sync"
	"sync/atomic"
	"time"

	regexp2 "github.com/dlclark/regexp2/v2"
)

func init() {
	commands["run-hangstress"] = func(args []string) int {
		fs := flag.NewFlagSet("run-hangstress", flag.ExitOnError)
		G := fs.Int("g", 16, "goroutines")
		secs := fs.Int("secs", 20, "duration")
		tmo := fs.Int("timeout-ms", 15, "MatchTimeout")
		watch := fs.Int("watch-s", 10, "watchdog per call")
		fs.Parse(args)
		pats := []string{`a(?>b?)(b)`, `(?:a(?>b??)){2}`, `^(x+x+)+$`, `(a|aa)+$`, `\w+@\w+\.com`, `(?>[a-z]*)[\x00-\x{FFFF}]+`}
		inputs := []string{"ab12 b", "a", "xxxxxxxxxxxxxxxxxxxxxxxxxxxxxxxxxxxxxxxx!", "aaaaaaaaaaaaaaaaaaaaaaaaaaaaaaaaaaaaaaaaaaab", "someone@example.com", "ab12 a "}
		var calls, timeouts, hangs int64
		var mu sync.Mutex
		var hung []string
		stop := time.Now().Add(time.Duration(*secs) * time.Second)
		var wg sync.WaitGroup
		for gi := 0; gi < *G; gi++ {
			wg.Add(1)
			go func(gi int) {
				defer wg.Done()
				for k := 0; time.Now().Before(stop); k++ {
					i := (k + gi) % len(pats)
					re := regexp2.MustCompile(pats[i])
					re.MatchTimeout = time.Duration(*tmo) * time.Millisecond
					in := inputs[(k*7+gi)%len(inputs)]
					done := make(chan error, 1)
					go func() { _, err := re.MatchString(in); done <- err }()
					select {
					case err := <-done:
						atomic.AddInt64(&calls, 1)
						if err != nil {
							atomic.AddInt64(&timeouts, 1)
						}
					case <-time.After(time.Duration(*watch) * time.Second):
						atomic.AddInt64(&hangs, 1)
						mu.Lock()
						hung = append(hung, fmt.Sprintf("%q on %q", pats[i], in))
						mu.Unlock()
					}
				}
			}(gi)
		}
		wg.Wait()
		json.NewEncoder(os.Stdout).Encode(map[string]any{"calls": calls, "timeouts": timeouts, "hangs": hangs, "hung": hung})
		return 0
	}
}

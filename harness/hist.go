package main

// run-hist: conformance harness for C11 and C12.
//
//   -mode seq     replays call histories (from TLC, spec/Gen_Hist.tla, or generated) on a set of SHARED
//                 Regexps; every step is also executed on a freshly compiled Regexp and the two results
//                 must be equal (C12).  The runner state seen at every scan start and every pool / cache
//                 event is logged for spec/Obs_Pool.tla.
//   -mode conc    G goroutines issue calls from the same alphabet on the shared Regexps at once
//                 (free-running; build with -race); every result must equal the sequential result (C11).
//   -mode sched   two goroutines are stepped through a given interleaving of the gate points.

import (
	"bufio"
	"bytes"
	"encoding/json"
	"errors"
	"flag"
	"fmt"
	"os"
	"runtime"
	"strconv"
	"strings"
	"sync"
	"sync/atomic"
	"time"

	regexp2 "github.com/dlclark/regexp2/v2"
)

type histRegexp struct {
	name    string
	pattern string
	opts    []regexp2.CompileOption
	timeout time.Duration
	hits    string // what its interesting inputs look like
}

var histRegexps = []histRegexp{
	{name: "plain", pattern: `(a+)(b)?c`},
	{name: "boolquick", pattern: `(x)(y)?z|(q)w`},
	{name: "balancing", pattern: `(?<o>\()+[^()]*(?<-o>\))+(?(o)(?!))`},
	// the two Regexps that end in an error have an optional group in front: it holds a capture when the error strikes and
	// must be unset in later matches of the same Regexp
	{name: "stacklimit", pattern: `(q)?(?:(?:a*?b*?c*?d*?x)+?)+y`, opts: []regexp2.CompileOption{regexp2.OptionMaxBacktrackingStackSize(200)}},
	{name: "timeout", pattern: `^(y)?(x+x+)+;`, timeout: 25 * time.Millisecond}, // anchored: every input but the catastrophic one is decided at once
	{name: "rtl", pattern: `(\w)(\d)`, opts: []regexp2.CompileOption{regexp2.RightToLeft}},
	{name: "replace", pattern: `(?<l>\w)(\d)`},
	{name: "lookbehind", pattern: `(?<=(a)b)c|\Gx`},
}

// inputs: sizes cross the pooled buffer classes (1K / 4K / 16K runes), contents make the results differ
func histInput(k int) string {
	switch k {
	case 0:
		return "xxx; aabc xz (()) a1 b2 abc xxxxy"
	case 1:
		return strings.Repeat("ab1 ", 300) + "aaabc (x) qw" // ~1.2K
	case 2:
		return strings.Repeat("xyz(()) c7 ", 450) + "xxxxxxxxxxy" // ~5K
	case 3:
		return strings.Repeat("é2 aabc ", 2200) + "((a)) xyz" // ~17.6K runes, multi-byte
	case 4:
		return "y" + strings.Repeat("x", 36) + "!" // the timeout Regexp never finishes on this one
	case 5:
		return "q" + strings.Repeat("x", 30) // the stack-limited Regexp runs out of stack on this one
	}
	return ""
}

var histOps = []string{"MatchString", "MatchRunes", "FindStringMatch", "FindRunesMatch", "FindNext", "FindAllStringIndex", "Replace", "ReplaceFunc", "Split"}

type histCall struct {
	Re   int `json:"re"`
	In   int `json:"inp"`
	Op   int `json:"op"`
	Repl int `json:"repl"`
}

func compileHist(i int) *regexp2.Regexp {
	h := histRegexps[i]
	re := regexp2.MustCompile(h.pattern, h.opts...)
	if h.timeout > 0 {
		re.MatchTimeout = h.timeout
	}
	return re
}

func errClass(err error) string {
	switch {
	case err == nil:
		return ""
	case errors.Is(err, regexp2.ErrBacktrackingStackLimit):
		return "stacklimit"
	case strings.Contains(err.Error(), "match timeout"):
		return "timeout"
	}
	return "error:" + err.Error()
}

func matchDigest(m *regexp2.Match) string {
	if m == nil {
		return "nil"
	}
	var sb strings.Builder
	fmt.Fprintf(&sb, "%d+%d", m.RuneIndex, m.RuneLength)
	for _, g := range m.Groups()[1:] {
		sb.WriteByte('[')
		for _, c := range g.Captures {
			fmt.Fprintf(&sb, "%d+%d,", c.RuneIndex, c.RuneLength)
		}
		sb.WriteByte(']')
	}
	return sb.String()
}

// doCall executes one call and returns a digest of everything it returned
func doCall(re *regexp2.Regexp, c histCall) (digest string) {
	defer func() {
		if p := recover(); p != nil {
			digest = fmt.Sprintf("PANIC: %v", p)
		}
	}()
	in := histInput(c.In)
	switch histOps[c.Op] {
	case "MatchString":
		ok, err := re.MatchString(in)
		return fmt.Sprint(ok, errClass(err))
	case "MatchRunes":
		ok, err := re.MatchRunes([]rune(in))
		return fmt.Sprint(ok, errClass(err))
	case "FindStringMatch":
		m, err := re.FindStringMatch(in)
		return matchDigest(m) + errClass(err)
	case "FindRunesMatch":
		m, err := re.FindRunesMatch([]rune(in))
		return matchDigest(m) + errClass(err)
	case "FindNext":
		m, err := re.FindStringMatch(in)
		var sb strings.Builder
		for n := 0; m != nil && err == nil && n < 6; n++ {
			sb.WriteString(matchDigest(m) + ";")
			m, err = re.FindNextMatch(m)
		}
		return sb.String() + errClass(err)
	case "FindAllStringIndex":
		v, err := re.FindAllStringIndex(in, 5)
		return fmt.Sprint(v, errClass(err))
	case "Replace":
		repl := fmt.Sprintf("<$1|%d|${2}>", c.Repl)
		out, err := re.Replace(in, repl, -1, 3)
		return fmt.Sprintf("%d:%s%s", len(out), tail(out, 60), errClass(err))
	case "ReplaceFunc":
		out, err := re.ReplaceFunc(in, func(m regexp2.Match) string { return "{" + m.String() + "}" }, -1, 2)
		return fmt.Sprintf("%d:%s%s", len(out), tail(out, 60), errClass(err))
	case "Split":
		out, err := re.Split(in, 3)
		n := 0
		for _, s := range out {
			n += len(s)
		}
		return fmt.Sprint(len(out), n, errClass(err))
	}
	return "?"
}

func tail(s string, n int) string {
	if len(s) <= n {
		return s
	}
	return s[len(s)-n:]
}

func goid() int64 {
	var buf [64]byte
	n := runtime.Stack(buf[:], false)
	f := bytes.Fields(buf[:n])
	id, _ := strconv.ParseInt(string(f[1]), 10, 64)
	return id
}

type poolEvent struct {
	Seq   int64  `json:"seq"`
	G     int64  `json:"g"`
	Ev    string `json:"ev"`
	Obj   int    `json:"obj"`
	A     int    `json:"a"`
	B     int    `json:"b"`
	Quick bool   `json:"quick"`
	Clean bool   `json:"clean"`
}

type eventLog struct {
	mu   sync.Mutex
	seq  int64
	ids  map[any]int
	evs  []poolEvent
	max  int
	drop int64
}

func (l *eventLog) id(obj any) int {
	if v, ok := l.ids[obj]; ok {
		return v
	}
	l.ids[obj] = len(l.ids) + 1
	return len(l.ids)
}

func (l *eventLog) install() {
	regexp2.SetVerifOnScanStart(func(r *regexp2.Runner) {
		st := r.VerifState()
		g := goid()
		l.mu.Lock()
		defer l.mu.Unlock()
		if len(l.evs) >= l.max {
			atomic.AddInt64(&l.drop, 1)
			return
		}
		l.seq++
		clean := st.TrackDepth == 0 && st.StackDepth == 0 && st.CrawlDepth == 0 && st.MatchCount0 == 0 && !st.Balancing
		l.evs = append(l.evs, poolEvent{Seq: l.seq, G: g, Ev: "scanStart", Obj: l.id(r), A: st.TrackCap, Quick: st.Quick, Clean: clean})
	})
	regexp2.SetVerifOnPoint(func(point string, obj any, a, b int) {
		if strings.HasPrefix(point, "clock") || strings.HasPrefix(point, "deadline") || point == "getRunner" || point == "bufGet" {
			return
		}
		g := goid()
		l.mu.Lock()
		defer l.mu.Unlock()
		if len(l.evs) >= l.max {
			atomic.AddInt64(&l.drop, 1)
			return
		}
		l.seq++
		ev := poolEvent{Seq: l.seq, G: g, Ev: point, Obj: l.id(obj), A: a, B: b}
		if r, ok := obj.(*regexp2.Runner); ok {
			ev.Quick = r.VerifState().Quick
		}
		l.evs = append(l.evs, ev)
	})
}

func (l *eventLog) uninstall() {
	regexp2.SetVerifOnScanStart(nil)
	regexp2.SetVerifOnPoint(nil)
}

func init() {
	commands["run-hist"] = func(args []string) int {
		fs := flag.NewFlagSet("run-hist", flag.ExitOnError)
		mode := fs.String("mode", "seq", "seq|conc|mutex")
		in := fs.String("i", "", "seq: TLC output with <<\"H\", json>> histories ([] of calls); empty = generate")
		n := fs.Int("n", 200, "generated histories (seq) / calls per goroutine (conc)")
		length := fs.Int("len", 12, "generated history length")
		G := fs.Int("g", 8, "goroutines (conc)")
		procs := fs.Int("procs", 0, "GOMAXPROCS (conc)")
		stream := fs.Uint64("stream", 1, "PRNG stream")
		fs.Parse(args)
		g := &Gen{r: newRand(seedFromEnv(), *stream)}
		log := &eventLog{ids: map[any]int{}, max: 150000}

		// expected result of every call = result on a fresh Regexp (computed lazily, memoized)
		var fmu sync.Mutex
		fresh := map[histCall]string{}
		expect := func(c histCall) string {
			fmu.Lock()
			defer fmu.Unlock()
			if v, ok := fresh[c]; ok {
				return v
			}
			// (expectations are computed before the event log is installed)
			v := doCall(compileHist(c.Re), c)
			fresh[c] = v
			return v
		}
		randCall := func() histCall {
			c := histCall{Re: g.pick(len(histRegexps)), In: g.pick(4), Op: g.pick(len(histOps)), Repl: g.pick(20)}
			if histRegexps[c.Re].name == "timeout" && g.chance(0.5) {
				c.In = 4
			}
			if histRegexps[c.Re].name == "stacklimit" && g.chance(0.5) {
				c.In = 5
			}
			return c
		}
		type mism struct {
			Rule    string     `json:"rule"`
			History []histCall `json:"history"`
			Step    int        `json:"step"`
			Call    string     `json:"call"`
			Shared  string     `json:"shared_result"`
			Fresh   string     `json:"fresh_result"`
		}
		var mm []mism
		var mmu sync.Mutex
		describe := func(c histCall) string {
			return fmt.Sprintf("%s.%s(input %d, repl %d)", histRegexps[c.Re].name, histOps[c.Op], c.In, c.Repl)
		}
		steps, nontrivial := 0, 0
		kinds := map[string]int{}

		if *mode == "seq" {
			var histories [][]histCall
			if *in != "" {
				f, err := os.Open(*in)
				if err != nil {
					fmt.Fprintln(os.Stderr, err)
					return 2
				}
				sc := bufio.NewScanner(f)
				sc.Buffer(make([]byte, 1<<20), 1<<26)
				for sc.Scan() {
					if p, ok := tlcPayload(sc.Text(), "H"); ok {
						var h struct {
							Calls []histCall `json:"calls"`
						}
						if err := json.Unmarshal([]byte(p), &h); err != nil {
							fmt.Fprintln(os.Stderr, "bad H record", err)
							return 2
						}
						histories = append(histories, h.Calls)
					}
				}
				f.Close()
			}
			for i := 0; i < *n; i++ {
				h := make([]histCall, *length)
				for k := range h {
					h[k] = randCall()
				}
				histories = append(histories, h)
			}
			// precompute the expectations before the log is installed
			for _, h := range histories {
				for _, c := range h {
					expect(c)
				}
			}
			shared := make([]*regexp2.Regexp, len(histRegexps))
			for i := range shared {
				shared[i] = compileHist(i)
			}
			log.install()
			for _, h := range histories {
				for k, c := range h {
					got := doCall(shared[c.Re], c)
					want := fresh[c]
					steps++
					if strings.Contains(want, "timeout") || strings.Contains(want, "stacklimit") {
						kinds["error-steps"]++
					}
					if k > 0 {
						nontrivial++
					}
					if got != want {
						rule := "history.result"
						if strings.HasPrefix(got, "PANIC") {
							rule = "history.panic"
						}
						if len(mm) < 50 {
							mm = append(mm, mism{rule, h[:k+1], k, describe(c), got, want})
						}
					}
				}
			}
			log.uninstall()
		} else if *mode == "mutex" {
			// schedule forcing for the critical sections of Pool.tla's atomic steps: the callback of the hook that sits
			// INSIDE a critical section records csEnter, holds the goroutine there until a second goroutine arrives in
			// the same section or a short time has passed, and records csExit.  Under a mutex nobody can arrive, so the
			// log shows disjoint sections; any overlap in the log is an overlap of real critical sections.
			re := compileHist(0)
			var inside sync.Map // obj -> *int32
			arrive := make(chan struct{}, 1024)
			regexp2.SetVerifOnPoint(func(point string, obj any, a, b int) {
				if point != "cacheGet" && point != "cacheAdd" {
					return
				}
				g := goid()
				cnt, _ := inside.LoadOrStore(obj, new(int32))
				rec := func(ev string) {
					log.mu.Lock()
					log.seq++
					log.evs = append(log.evs, poolEvent{Seq: log.seq, G: g, Ev: ev, Obj: log.id(obj), A: a, B: b})
					log.mu.Unlock()
				}
				rec("csEnter")
				if atomic.AddInt32(cnt.(*int32), 1) == 1 {
					select {
					case <-arrive:
					case <-time.After(3 * time.Millisecond):
					}
				} else {
					select {
					case arrive <- struct{}{}:
					default:
					}
				}
				atomic.AddInt32(cnt.(*int32), -1)
				rec("csExit")
			})
			var wg sync.WaitGroup
			for gi := 0; gi < *G; gi++ {
				wg.Add(1)
				go func(gi int) {
					defer wg.Done()
					for k := 0; k < *n; k++ {
						// the same few replacement strings (cache hits, list reordering) and fresh ones (inserts, evictions)
						repl := fmt.Sprintf("<$0:%d>", (k+gi)%3)
						if k%5 == 4 {
							repl = fmt.Sprintf("<$0:%d:%d>", gi, k)
						}
						re.Replace("xaby", repl, -1, -1)
						mmu.Lock()
						steps++
						nontrivial++
						mmu.Unlock()
					}
				}(gi)
			}
			wg.Wait()
			regexp2.SetVerifOnPoint(nil)
		} else {
			if *procs > 0 {
				runtime.GOMAXPROCS(*procs)
			}
			calls := make([][]histCall, *G)
			for gi := range calls {
				calls[gi] = make([]histCall, *n)
				for k := range calls[gi] {
					calls[gi][k] = randCall()
					expect(calls[gi][k])
				}
			}
			shared := make([]*regexp2.Regexp, len(histRegexps))
			for i := range shared {
				shared[i] = compileHist(i)
			}
			log.install()
			var wg sync.WaitGroup
			for gi := 0; gi < *G; gi++ {
				wg.Add(1)
				go func(gi int) {
					defer wg.Done()
					for k, c := range calls[gi] {
						if k%7 == gi%7 {
							runtime.Gosched()
						}
						got := doCall(shared[c.Re], c)
						want := fresh[c]
						mmu.Lock()
						steps++
						nontrivial++
						if got != want && len(mm) < 50 {
							rule := "concurrent.result"
							if strings.HasPrefix(got, "PANIC") {
								rule = "concurrent.panic"
							}
							mm = append(mm, mism{rule, []histCall{c}, k, describe(c), got, want})
						}
						mmu.Unlock()
					}
				}(gi)
			}
			wg.Wait()
			log.uninstall()
		}
		if mm == nil {
			mm = []mism{}
		}
		out := map[string]any{"mode": *mode, "steps": steps, "nontrivial": nontrivial, "mismatches": mm, "events": log.evs, "events_dropped": log.drop,
			"error_steps": kinds["error-steps"], "cache_max": 16}
		enc := json.NewEncoder(os.Stdout)
		enc.SetEscapeHTML(false)
		enc.Encode(out)
		return 0
	}
}

package main

import (
	"fmt"
	"os"
)

func main() {
	if len(os.Args) < 2 {
		fmt.Fprintln(os.Stderr, "usage: vh <cmd> ...")
		os.Exit(2)
	}
	applyGates()
	switch os.Args[1] {
	case "gen-unicode":
		genUnicode(os.Stdout)
	default:
		if f, ok := commands[os.Args[1]]; ok {
			os.Exit(f(os.Args[2:]))
		}
		fmt.Fprintln(os.Stderr, "unknown command", os.Args[1])
		os.Exit(2)
	}
}

var commands = map[string]func(args []string) int{}

package main

import (
	"fmt"
	"os"
	"runtime/pprof"
)

func main() {
	if len(os.Args) < 2 {
		fmt.Fprintln(os.Stderr, "usage: vh <cmd> ...")
		os.Exit(2)
	}
	applyGates()
	switch os.Args[1] {
	case "gen-unicode":
		genUnicode(os.Stdout)
	default:
		if f, ok := commands[os.Args[1]]; ok {
			if pf := os.Getenv("VERIF_PROF"); pf != "" { // CPU profile of the harness itself (development aid)
				if w, err := os.Create(pf); err == nil {
					pprof.StartCPUProfile(w)
					rc := f(os.Args[2:])
					pprof.StopCPUProfile()
					w.Close()
					os.Exit(rc)
				}
			}
			os.Exit(f(os.Args[2:]))
		}
		fmt.Fprintln(os.Stderr, "unknown command", os.Args[1])
		os.Exit(2)
	}
}

var commands = map[string]func(args []string) int{}

package main

import (
	"encoding/json"
	"fmt"
	"os"
	"runtime/debug"
	"runtime/pprof"
	"strings"
)

func main() {
	if len(os.Args) < 2 {
		fmt.Fprintln(os.Stderr, "usage: vh <cmd> ...")
		os.Exit(2)
	}
	applyGates()
	// a panic that escapes a recorder: if it was raised inside the library it is a behaviour of the real code (reported as
	// ENGINE-PANIC, exit 3, turned into a violation by the check), otherwise it is the harness' own fault (exit 2)
	defer func() {
		if p := recover(); p != nil {
			stack := string(debug.Stack())
			inEngine, afterPanic := false, false
			for _, l := range strings.Split(stack, "\n") {
				if strings.HasPrefix(l, "panic(") {
					afterPanic = true
					continue
				}
				if afterPanic && !strings.HasPrefix(l, "\t") && !strings.HasPrefix(l, "runtime.") && l != "" {
					inEngine = strings.HasPrefix(l, "github.com/dlclark/regexp2/")
					break
				}
			}
			if len(stack) > 3000 {
				stack = stack[:3000]
			}
			b, _ := json.Marshal(map[string]any{"rule": "engine.panic", "pattern": lastPattern, "options": lastOptions, "panic": fmt.Sprint(p), "command": os.Args[1], "stack": stack})
			if inEngine {
				fmt.Fprintln(os.Stderr, "ENGINE-PANIC "+string(b))
				os.Exit(3)
			}
			fmt.Fprintln(os.Stderr, "harness panic:", p, "\n"+stack)
			os.Exit(2)
		}
	}()
	switch os.Args[1] {
	case "gen-unicode":
		genUnicode(os.Stdout)
	default:
		if f, ok := commands[os.Args[1]]; ok {
			if pf := os.Getenv("VERIF_PROF"); pf != "" { // CPU profile of the harness itself (development aid)
				if w, err := os.Create(pf); err == nil {
					pprof.StartCPUProfile(w)
					rc := f(os.Args[2:])
					pprof.StopCPUProfile()
					w.Close()
					os.Exit(rc)
				}
			}
			os.Exit(f(os.Args[2:]))
		}
		fmt.Fprintln(os.Stderr, "unknown command", os.Args[1])
		os.Exit(2)
	}
}

var commands = map[string]func(args []string) int{}

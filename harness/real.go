package main

// Driving the real engine and projecting its results onto the specification's vocabulary.

import (
	"fmt"
	"strings"
	"time"

	regexp2 "github.com/dlclark/regexp2/v2"
	"github.com/dlclark/regexp2/v2/syntax"
)

// Res is a match result in the specification's terms.  Caps[g-1] is the ordered capture list of
// group number g as <<start,len>> pairs in runes.
type Res struct {
	Ok   bool       `json:"ok"`
	Idx  int        `json:"idx"`
	Len  int        `json:"len"`
	Caps [][][2]int `json:"caps"`
	Err  string     `json:"err,omitempty"`
}

func optBits(o []string, dia string, rtl bool) regexp2.RegexOptions {
	var b regexp2.RegexOptions
	for _, l := range o {
		switch l {
		case "i":
			b |= regexp2.IgnoreCase
		case "m":
			b |= regexp2.Multiline
		case "s":
			b |= regexp2.Singleline
		case "n":
			b |= regexp2.ExplicitCapture
		case "x":
			b |= regexp2.IgnorePatternWhitespace
		}
	}
	switch dia {
	case "re2":
		b |= regexp2.RE2
	case "ecma":
		b |= regexp2.ECMAScript
	}
	if rtl {
		b |= regexp2.RightToLeft
	}
	return b
}

func has(o []string, l string) bool {
	for _, x := range o {
		if x == l {
			return true
		}
	}
	return false
}

// matchRes projects a *Match.  Group numbers are assumed dense 1..n (true without explicitly
// numbered groups); ng is the number of capture groups excluding group 0.
func matchRes(re *regexp2.Regexp, m *regexp2.Match) Res {
	if m == nil {
		return Res{Caps: [][][2]int{}}
	}
	r := Res{Ok: true, Idx: m.RuneIndex, Len: m.RuneLength, Caps: [][][2]int{}}
	nums := re.GetGroupNumbers()
	for _, n := range nums {
		if n == 0 {
			continue
		}
		g := m.GroupByNumber(n)
		cs := [][2]int{}
		if g != nil {
			for _, c := range g.Captures {
				cs = append(cs, [2]int{c.RuneIndex, c.RuneLength})
			}
		}
		r.Caps = append(r.Caps, cs)
	}
	return r
}

// safely runs f, converting a panic into an error string
func safely(f func() error) (err error) {
	defer func() {
		if p := recover(); p != nil {
			err = fmt.Errorf("PANIC: %v", p)
		}
	}()
	return f()
}

// the pattern most recently compiled: the context reported when the real engine panics in an unguarded call
var lastPattern string
var lastOptions int

func compile(text string, opts regexp2.RegexOptions, extra ...regexp2.CompileOption) (re *regexp2.Regexp, err error) {
	lastPattern, lastOptions = text, int(opts)
	err = safely(func() error {
		var e error
		all := append([]regexp2.CompileOption{opts}, extra...)
		re, e = regexp2.Compile(text, all...)
		return e
	})
	if re != nil {
		re.MatchTimeout = 10 * time.Second
	}
	return
}

func findRunesAt(re *regexp2.Regexp, in []rune, start int) (res Res) {
	err := safely(func() error {
		m, e := re.FindRunesMatchStartingAt(in, start)
		if e != nil {
			return e
		}
		res = matchRes(re, m)
		return nil
	})
	if err != nil {
		res = Res{Caps: [][][2]int{}, Err: err.Error()}
	}
	return
}

func quoteRunes(s []int) string {
	var sb strings.Builder
	for _, c := range s {
		if c < 0x20 || c == 0x7f || c > 0xffff || (c >= 0x300 && c < 0x370) {
			fmt.Fprintf(&sb, "\\u{%X}", c)
		} else {
			sb.WriteRune(rune(c))
		}
	}
	return sb.String()
}

// ---------------------------------------------------------------------------------------------
// Cost of a case for the SPECIFICATION.  RegexSem is a plain backtracking search without any of the engine's
// rewrites, evaluated by TLC about three orders of magnitude slower than the engine: a pattern the engine handles
// in linear time thanks to a rewrite (loop multiplication, auto-atomic loops ...) can be exponential for it.  The
// probe is the same pattern compiled with every rewrite gate on and scanned naively; its cost is counted in
// interpreter steps (deterministic), with a short timeout as a backstop.

var specProbeGates = []string{"no-auto-atomic", "no-ending-backtracking-elimination", "no-bumpalong", "no-prefix-factoring",
	"no-atomic-alternation-rewrites", "no-nonboundary-atomic", "no-loop-multiplication"}

type specProbe struct{ re *regexp2.Regexp }

func newSpecProbe(text string, opts regexp2.RegexOptions) *specProbe {
	for _, g := range specProbeGates {
		syntax.VerifSetGate(g, true)
	}
	defer func() {
		for _, g := range specProbeGates {
			syntax.VerifSetGate(g, false)
		}
		applyGates() // gates requested through VERIF_GATES stay in force
	}()
	save, saveO := lastPattern, lastOptions
	re, err := compile(text, opts)
	lastPattern, lastOptions = save, saveO
	if err != nil || re == nil {
		return &specProbe{}
	}
	re = regexp2.VerifNaive(re)
	re.MatchTimeout = 25 * time.Millisecond
	return &specProbe{re}
}

// steps returns the number of interpreter steps of one search from start (a huge number on timeout)
func (p *specProbe) steps(in []rune, start int) int {
	if p.re == nil {
		return 0
	}
	n := 0
	regexp2.SetVerifOnStep(func(*regexp2.Runner) { n++ })
	err := safely(func() error {
		_, e := p.re.FindRunesMatchStartingAt(in, start)
		return e
	})
	regexp2.SetVerifOnStep(nil)
	if err != nil {
		return 1 << 30
	}
	return n
}

// heavyForSpec: would evaluating the searches of this input (every start offset) be too expensive for TLC?
const specStepBudget = 2500

func (p *specProbe) heavy(in []rune, rtl bool) bool {
	return p.heavyFor(in, specStepBudget, 4*specStepBudget)
}

// heavyFor: the same with explicit budgets (per start offset, and over all start offsets of the input)
func (p *specProbe) heavyFor(in []rune, perStart, total int) bool {
	sum := 0
	for st := 0; st <= len(in); st++ {
		n := p.steps(in, st)
		if sum += n; n > perStart || sum > total {
			return true
		}
	}
	return false
}

package main

// Driving the real engine and projecting its results onto the specification's vocabulary.

import (
	"fmt"
	"strings"
	"time"

	regexp2 "github.com/dlclark/regexp2/v2"
)

// Res is a match result in the specification's terms.  Caps[g-1] is the ordered capture list of
// group number g as <<start,len>> pairs in runes.
type Res struct {
	Ok   bool       `json:"ok"`
	Idx  int        `json:"idx"`
	Len  int        `json:"len"`
	Caps [][][2]int `json:"caps"`
	Err  string     `json:"err,omitempty"`
}

func optBits(o []string, dia string, rtl bool) regexp2.RegexOptions {
	var b regexp2.RegexOptions
	for _, l := range o {
		switch l {
		case "i":
			b |= regexp2.IgnoreCase
		case "m":
			b |= regexp2.Multiline
		case "s":
			b |= regexp2.Singleline
		case "n":
			b |= regexp2.ExplicitCapture
		case "x":
			b |= regexp2.IgnorePatternWhitespace
		}
	}
	switch dia {
	case "re2":
		b |= regexp2.RE2
	case "ecma":
		b |= regexp2.ECMAScript
	}
	if rtl {
		b |= regexp2.RightToLeft
	}
	return b
}

func has(o []string, l string) bool {
	for _, x := range o {
		if x == l {
			return true
		}
	}
	return false
}

// matchRes projects a *Match.  Group numbers are assumed dense 1..n (true without explicitly
// numbered groups); ng is the number of capture groups excluding group 0.
func matchRes(re *regexp2.Regexp, m *regexp2.Match) Res {
	if m == nil {
		return Res{Caps: [][][2]int{}}
	}
	r := Res{Ok: true, Idx: m.RuneIndex, Len: m.RuneLength, Caps: [][][2]int{}}
	nums := re.GetGroupNumbers()
	for _, n := range nums {
		if n == 0 {
			continue
		}
		g := m.GroupByNumber(n)
		cs := [][2]int{}
		if g != nil {
			for _, c := range g.Captures {
				cs = append(cs, [2]int{c.RuneIndex, c.RuneLength})
			}
		}
		r.Caps = append(r.Caps, cs)
	}
	return r
}

// safely runs f, converting a panic into an error string
func safely(f func() error) (err error) {
	defer func() {
		if p := recover(); p != nil {
			err = fmt.Errorf("PANIC: %v", p)
		}
	}()
	return f()
}

// the pattern most recently compiled: the context reported when the real engine panics in an unguarded call
var lastPattern string
var lastOptions int

func compile(text string, opts regexp2.RegexOptions, extra ...regexp2.CompileOption) (re *regexp2.Regexp, err error) {
	lastPattern, lastOptions = text, int(opts)
	err = safely(func() error {
		var e error
		all := append([]regexp2.CompileOption{opts}, extra...)
		re, e = regexp2.Compile(text, all...)
		return e
	})
	if re != nil {
		re.MatchTimeout = 10 * time.Second
	}
	return
}

func findRunesAt(re *regexp2.Regexp, in []rune, start int) (res Res) {
	err := safely(func() error {
		m, e := re.FindRunesMatchStartingAt(in, start)
		if e != nil {
			return e
		}
		res = matchRes(re, m)
		return nil
	})
	if err != nil {
		res = Res{Caps: [][][2]int{}, Err: err.Error()}
	}
	return
}

func quoteRunes(s []int) string {
	var sb strings.Builder
	for _, c := range s {
		if c < 0x20 || c == 0x7f || c > 0xffff || (c >= 0x300 && c < 0x370) {
			fmt.Fprintf(&sb, "\\u{%X}", c)
		} else {
			sb.WriteRune(rune(c))
		}
	}
	return sb.String()
}

package main

// record-api: direction B for C02 / C07 / C08 / C09.  For one compiled pattern and one input (a byte
// string, possibly invalid UTF-8) every public entry point is called and everything they return is
// logged in one record; TLC (spec/Obs_API.tla) checks the record against spec/API.tla.

import (
	"bufio"
	"encoding/json"
	"flag"
	"fmt"
	"os"
	"unicode/utf8"

	regexp2 "github.com/dlclark/regexp2/v2"
)

// ResB: a match as seen through a string-based entry point, with everything C08 talks about.
type ResB struct {
	Ok    bool       `json:"ok"`
	Idx   int        `json:"idx"`
	Len   int        `json:"len"`
	Caps  [][][2]int `json:"caps"`  // rune spans per group 1..ng
	B     [2]int     `json:"b"`     // ByteRange of the match
	BCaps [][][2]int `json:"bcaps"` // ByteRange per capture
	Str   []int      `json:"str"`   // runes of Match.String()
	Run   []int      `json:"run"`   // Match.Runes()
	G0    [][2]int   `json:"g0"`    // captures of group 0
	Emb   [][2]int   `json:"emb"`   // embedded capture of each group 1..ng
	GStr  [][]int    `json:"gstr"`  // runes of Group.String() per group 1..ng
	Err   string     `json:"err"`
}

type BoolRes struct {
	V   bool   `json:"v"`
	Err string `json:"err"`
}

type IdxRes struct {
	N   int      `json:"n"`
	V   [][2]int `json:"v"`
	Nil bool     `json:"nil"`
	Err string   `json:"err"`
}

type RepRes struct {
	R     []int  `json:"r"`     // replacement string (runes)
	Start int    `json:"start"` // startAt in RUNES (-1 = default); the call receives the byte offset
	Count int    `json:"count"`
	Out   []int  `json:"out"`  // Replace result (runes)
	OutF  []int  `json:"outf"` // ReplaceFunc result with an evaluator computing the same expansion through Match accessors
	Err   string `json:"err"`
	ErrF  string `json:"errf"`
}

type SplitRes struct {
	Count int     `json:"count"`
	Out   [][]int `json:"out"`
	Nil   bool    `json:"nil"`
	Err   string  `json:"err"`
}

type APICase struct {
	B     []int      `json:"b"` // input bytes
	R     []int      `json:"r"` // runes as decoded by Go
	MS    BoolRes    `json:"ms"`
	MR    BoolRes    `json:"mr"`
	FS    ResB       `json:"fs"`
	FR    ResB       `json:"fr"`
	FSA   []ResB     `json:"fsa"`
	FRA   []ResB     `json:"fra"`
	Iter  []ResB     `json:"iter"`
	IterR []ResB     `json:"iterr"`
	Hang  bool       `json:"hang"` // an iteration did not stop within len+2 steps
	FAI   []IdxRes   `json:"fai"`
	FARI  []IdxRes   `json:"fari"`
	RF    []ResB     `json:"rf"`
	Rep   []RepRes   `json:"rep"`
	Split []SplitRes `json:"split"`
}

type APIRec struct {
	ID    int       `json:"id"`
	P     Pat       `json:"p"`
	O     []string  `json:"o"`
	Dia   string    `json:"dia"`
	RTL   bool      `json:"rtl"`
	Text  string    `json:"text"`
	Exact bool      `json:"exact"`
	NG    int       `json:"ng"`
	Names [][]int   `json:"names"` // group names (runes) ...
	Nums  []int     `json:"nums"`  // ... and their numbers
	GNums []int     `json:"gnums"` // GetGroupNumbers(): the number of capture slot k (k = 0 is the match)
	Last  int       `json:"last"`  // number of the last group in Groups() order ($+)
	Cases []APICase `json:"cases"`
}

func toResB(re *regexp2.Regexp, m *regexp2.Match, err error) ResB {
	r := ResB{Caps: [][][2]int{}, BCaps: [][][2]int{}, Str: []int{}, Run: []int{}, G0: [][2]int{}, Emb: [][2]int{}, GStr: [][]int{}}
	if err != nil {
		r.Err = err.Error()
		return r
	}
	if m == nil {
		return r
	}
	r.Ok, r.Idx, r.Len = true, m.RuneIndex, m.RuneLength
	bi, bl := m.ByteRange()
	r.B = [2]int{bi, bl}
	r.Str = runesToInts([]rune(m.String()))
	r.Run = runesToInts(m.Runes())
	for _, c := range m.Captures {
		r.G0 = append(r.G0, [2]int{c.RuneIndex, c.RuneLength})
	}
	for _, n := range re.GetGroupNumbers() {
		if n == 0 {
			continue
		}
		g := m.GroupByNumber(n)
		cs, bs := [][2]int{}, [][2]int{}
		for i := range g.Captures {
			c := &g.Captures[i]
			cs = append(cs, [2]int{c.RuneIndex, c.RuneLength})
			x, y := c.ByteRange()
			bs = append(bs, [2]int{x, y})
		}
		r.Caps = append(r.Caps, cs)
		r.BCaps = append(r.BCaps, bs)
		r.Emb = append(r.Emb, [2]int{g.Capture.RuneIndex, g.Capture.RuneLength})
		r.GStr = append(r.GStr, runesToInts([]rune(g.String())))
	}
	return r
}

func errStr(err error) string {
	if err == nil {
		return ""
	}
	return err.Error()
}

// byteOffsetsOf returns the byte offset of every rune index 0..n of s (Go's own decoding)
func byteOffsetsOf(s string) []int {
	offs := []int{}
	for i := range s {
		offs = append(offs, i)
	}
	return append(offs, len(s))
}

func idxPairs(v [][]int) [][2]int {
	out := [][2]int{}
	for _, p := range v {
		out = append(out, [2]int{p[0], p[1]})
	}
	return out
}

// the expansion of a parsed replacement computed through the public Match accessors (what a
// ReplaceFunc evaluator written by a user would do); the parse itself is done by the spec-side
// description shipped in the record: toks[i] = [kind, value]
func apiCase(re *regexp2.Regexp, b []byte, repls [][]int, counts []int, rtl bool) (c APICase) {
	s := string(b)
	runes := []rune(s)
	c.B = make([]int, len(b))
	for i, x := range b {
		c.B[i] = int(x)
	}
	c.R = runesToInts(runes)
	c.FSA, c.FRA, c.Iter, c.IterR, c.FAI, c.FARI, c.RF, c.Rep, c.Split = []ResB{}, []ResB{}, []ResB{}, []ResB{}, []IdxRes{}, []IdxRes{}, []ResB{}, []RepRes{}, []SplitRes{}
	guard := func(f func()) (perr string) {
		defer func() {
			if p := recover(); p != nil {
				perr = fmt.Sprintf("PANIC: %v", p)
			}
		}()
		f()
		return ""
	}
	if e := guard(func() { v, err := re.MatchString(s); c.MS = BoolRes{V: v, Err: errStr(err)} }); e != "" {
		c.MS.Err = e
	}
	if e := guard(func() { v, err := re.MatchRunes(runes); c.MR = BoolRes{V: v, Err: errStr(err)} }); e != "" {
		c.MR.Err = e
	}
	if e := guard(func() { m, err := re.FindStringMatch(s); c.FS = toResB(re, m, err) }); e != "" {
		c.FS = toResB(re, nil, fmt.Errorf("%s", e))
	}
	if e := guard(func() { m, err := re.FindRunesMatch(runes); c.FR = toResB(re, m, err) }); e != "" {
		c.FR = toResB(re, nil, fmt.Errorf("%s", e))
	}
	offs := byteOffsetsOf(s)
	for k := 0; k <= len(runes); k++ {
		var a, bb ResB
		if e := guard(func() { m, err := re.FindStringMatchStartingAt(s, offs[k]); a = toResB(re, m, err) }); e != "" {
			a = toResB(re, nil, fmt.Errorf("%s", e))
		}
		if e := guard(func() { m, err := re.FindRunesMatchStartingAt(runes, k); bb = toResB(re, m, err) }); e != "" {
			bb = toResB(re, nil, fmt.Errorf("%s", e))
		}
		c.FSA = append(c.FSA, a)
		c.FRA = append(c.FRA, bb)
	}
	limit := len(runes) + 3
	chain := func(first func() (*regexp2.Match, error)) []ResB {
		out := []ResB{}
		if e := guard(func() {
			m, err := first()
			for steps := 0; ; steps++ {
				if err != nil {
					out = append(out, toResB(re, nil, err))
					return
				}
				if m == nil {
					return
				}
				if steps > limit {
					c.Hang = true
					return
				}
				out = append(out, toResB(re, m, nil))
				m, err = re.FindNextMatch(m)
			}
		}); e != "" {
			out = append(out, toResB(re, nil, fmt.Errorf("%s", e)))
		}
		return out
	}
	c.Iter = chain(func() (*regexp2.Match, error) { return re.FindStringMatch(s) })
	c.IterR = chain(func() (*regexp2.Match, error) { return re.FindRunesMatch(runes) })
	for _, n := range []int{-1, 0, 1, 2, 3} {
		var a, bb IdxRes
		if e := guard(func() {
			v, err := re.FindAllStringIndex(s, n)
			a = IdxRes{N: n, V: idxPairs(v), Nil: v == nil, Err: errStr(err)}
		}); e != "" {
			a = IdxRes{N: n, V: [][2]int{}, Err: e}
		}
		if e := guard(func() {
			v, err := re.FindAllRunesIndex(runes, n)
			bb = IdxRes{N: n, V: idxPairs(v), Nil: v == nil, Err: errStr(err)}
		}); e != "" {
			bb = IdxRes{N: n, V: [][2]int{}, Err: e}
		}
		c.FAI = append(c.FAI, a)
		c.FARI = append(c.FARI, bb)
	}
	// matches enumerated inside ReplaceFunc
	if e := guard(func() {
		_, err := re.ReplaceFunc(s, func(m regexp2.Match) string {
			if len(c.RF) <= limit {
				c.RF = append(c.RF, toResB(re, &m, nil))
			}
			return ""
		}, -1, -1)
		if err != nil {
			c.RF = append(c.RF, toResB(re, nil, err))
		}
	}); e != "" {
		c.RF = append(c.RF, toResB(re, nil, fmt.Errorf("%s", e)))
	}
	// Replace / ReplaceFunc with the given replacement strings, start offsets and counts
	for ri, rp := range repls {
		rs := string(intsToRunes(rp))
		starts := []int{-1}
		if len(runes) > 0 {
			starts = append(starts, (ri*7+3)%(len(runes)+1))
		}
		for _, st := range starts {
			for _, cnt := range counts {
				rr := RepRes{R: rp, Start: st, Count: cnt, Out: []int{}, OutF: []int{}}
				bst := -1
				if st >= 0 {
					bst = offs[st]
				}
				if e := guard(func() {
					out, err := re.Replace(s, rs, bst, cnt)
					rr.Out, rr.Err = runesToInts([]rune(out)), errStr(err)
				}); e != "" {
					rr.Err = e
				}
				if e := guard(func() {
					out, err := re.ReplaceFunc(s, func(m regexp2.Match) string { return "<" + m.String() + ">" }, bst, cnt)
					rr.OutF, rr.ErrF = runesToInts([]rune(out)), errStr(err)
				}); e != "" {
					rr.ErrF = e
				}
				c.Rep = append(c.Rep, rr)
			}
		}
	}
	for _, cnt := range []int{-1, 0, 1, 2, 3} {
		sr := SplitRes{Count: cnt, Out: [][]int{}}
		if e := guard(func() {
			out, err := re.Split(s, cnt)
			sr.Nil, sr.Err = out == nil, errStr(err)
			for _, piece := range out {
				sr.Out = append(sr.Out, runesToInts([]rune(piece)))
			}
		}); e != "" {
			sr.Err = e
		}
		c.Split = append(c.Split, sr)
	}
	return
}

// corruptBytes injects invalid UTF-8: lone continuation / lead bytes, 0xFF, truncated sequences
func (g *Gen) corruptBytes(b []byte) []byte {
	out := append([]byte{}, b...)
	n := 1 + g.pick(2)
	for i := 0; i < n; i++ {
		k := g.pick(len(out) + 1)
		bad := [][]byte{{0xff}, {0x80}, {0xc3}, {0xe2, 0x82}, {0xf0, 0x9f, 0x98}, {0xed, 0xa0, 0x80}, {0xc0, 0xaf}, {0xef, 0xbf, 0xbd}}[g.pick(8)]
		out = append(out[:k], append(append([]byte{}, bad...), out[k:]...)...)
	}
	return out
}

var replPool = []string{"$&", "<$0>", "[$1]", "$2$1", "${1}x", "$$", "$`|", "$'|", "$+", "$_", "${n}", "${nope}", "$9", "$", "a$", "$1$", "${1", "$ {1}", "$10", "${01}", "x", "", "$$1", "$&$&", "é$1😀", "${m}-$2", "$3|", "${7}", "$`$3", "$'$12", "[$+]", "$_$2"}

func init() {
	commands["record-api"] = func(args []string) int {
		fs := flag.NewFlagSet("record-api", flag.ExitOnError)
		n := fs.Int("n", 500, "patterns")
		ni := fs.Int("inputs", 5, "inputs per pattern")
		maxLen := fs.Int("maxlen", 10, "max input length")
		rtl := fs.String("rtl", "no", "no|yes|both")
		out := fs.String("o", "-", "output file")
		stream := fs.Uint64("stream", 1, "PRNG stream")
		profile := fs.String("profile", "fragment", "fragment (exact oracle applies) | wide (nullable loops, \\G, balancing groups: relational only) | balancing (every pattern has a group popped by a balancing group) | sparse (explicitly numbered groups with gaps and a reference to one of them; relational only)")
		nrepl := fs.Int("repl", 2, "replacement strings per input")
		invalid := fs.Float64("invalid", 0.3, "probability of injecting invalid UTF-8 into an input")
		caseFile := fs.String("case", "", "replay: JSON {p,o,dia,rtl,exact,b,repls}")
		fs.Parse(args)

		w := bufio.NewWriterSize(os.Stdout, 1<<20)
		if *out != "-" {
			f, err := os.Create(*out)
			if err != nil {
				fmt.Fprintln(os.Stderr, err)
				return 2
			}
			defer f.Close()
			w = bufio.NewWriterSize(f, 1<<20)
		}
		defer w.Flush()
		enc := json.NewEncoder(w)
		enc.SetEscapeHTML(false)

		mkRec := func(id int, p Pat, o []string, dia string, isRTL, exact bool, text string, re *regexp2.Regexp) APIRec {
			rec := APIRec{ID: id, P: p, O: o, Dia: dia, RTL: isRTL, Text: text, Exact: exact, Cases: []APICase{}, Names: [][]int{}, Nums: []int{}}
			nums := re.GetGroupNumbers()
			rec.NG = len(nums) - 1
			rec.GNums = nums
			for _, nm := range re.GetGroupNames() {
				rec.Names = append(rec.Names, runesToInts([]rune(nm)))
				rec.Nums = append(rec.Nums, re.GroupNumberFromName(nm))
			}
			rec.Last = nums[len(nums)-1]
			return rec
		}

		if *caseFile != "" {
			type oneCase struct {
				P     Pat      `json:"p"`
				O     []string `json:"o"`
				Dia   string   `json:"dia"`
				RTL   bool     `json:"rtl"`
				Exact bool     `json:"exact"`
				B     []int    `json:"b"`
				Repls [][]int  `json:"repls"`
			}
			var cs []oneCase
			data, err := os.ReadFile(*caseFile)
			if err == nil {
				if err = json.Unmarshal(data, &cs); err != nil {
					var one oneCase
					if err = json.Unmarshal(data, &one); err == nil {
						cs = []oneCase{one}
					}
				}
			}
			if err != nil {
				fmt.Fprintln(os.Stderr, err)
				return 2
			}
			for i, c := range cs {
				text := PrintPat(c.P, PrintOpts{X: has(c.O, "x"), RE2: c.Dia == "re2"})
				re, err := compile(text, optBits(c.O, c.Dia, c.RTL))
				if err != nil {
					fmt.Fprintln(os.Stderr, "compile error:", err)
					return 2
				}
				rec := mkRec(i+1, c.P, c.O, c.Dia, c.RTL, c.Exact, text, re)
				b := make([]byte, len(c.B))
				for j, x := range c.B {
					b[j] = byte(x)
				}
				rec.Cases = append(rec.Cases, apiCase(re, b, c.Repls, []int{-1, 0, 1, 2}, c.RTL))
				enc.Encode(rec)
			}
			return 0
		}

		cfg := cfgC01()
		exact := true
		if *profile == "wide" {
			cfg.Nullable, cfg.NestedRep, cfg.G, cfg.Balancing, cfg.NumNames = true, true, true, true, true
			exact = false
		}
		if *profile == "balancing" {
			cfg.Balancing = true // inside the exact oracle: RegexSem has the balancing-group rule
		}
		if *profile == "sparse" {
			exact = false // the specification's numbering is dense: relational rules only
		}
		g := &Gen{r: newRand(seedFromEnv(), *stream), c: cfg}
		alpha := inputAlphabet(cfg)
		compileErrs, cases, skipped := 0, 0, 0
		for id := 1; id <= *n; id++ {
			o := randOpts(g, "imsnx", 0.15)
			g.N = has(o, "n")
			t := g.Pattern()
			dia := "net"
			if exact && g.chance(0.1) {
				dia = "re2"
			}
			isRTL := *rtl == "yes" || (*rtl == "both" && g.chance(0.5))
			if *profile == "balancing" {
				t = g.BalPattern(isRTL)
			}
			if *profile == "sparse" {
				t = g.SparsePattern(isRTL)
			}
			if *profile != "sparse" { // the sparse shape names its reference targets itself
				g.resolveRefs(t, has(o, "n"))
			}
			p := Flatten(t)
			text := PrintPat(p, PrintOpts{X: has(o, "x"), RE2: dia == "re2", XNoise: g.pick(3)})
			re, err := compile(text, optBits(o, dia, isRTL))
			if err != nil {
				compileErrs++
				fmt.Fprintf(os.Stderr, "compile error: %q %v: %v\n", text, o, err)
				continue
			}
			rec := mkRec(id, p, o, dia, isRTL, exact, text, re)
			probe := newSpecProbe(text, optBits(o, dia, isRTL))
			for _, s := range g.Inputs(t, *ni, *maxLen, alpha) {
				b := []byte(string(intsToRunes(s)))
				if g.chance(*invalid) {
					b = g.corruptBytes(b)
				}
				if utf8.RuneCount(b) > *maxLen+4 {
					continue
				}
				// cost guard (see record-find)
				runes := []rune(string(b))
				if cheapest(func() { re.FindRunesMatch(runes) }) > 40_000 || probe.heavy(runes, isRTL) {
					skipped++
					continue
				}
				var repls [][]int
				for i := 0; i < *nrepl; i++ {
					repls = append(repls, runesToInts([]rune(replPool[g.pick(len(replPool))])))
				}
				rec.Cases = append(rec.Cases, apiCase(re, b, repls, []int{-1, 0, 1, 2}, isRTL))
				cases++
			}
			if err := enc.Encode(rec); err != nil {
				fmt.Fprintln(os.Stderr, err)
				return 2
			}
		}
		fmt.Fprintf(os.Stderr, "record-api: patterns=%d compile_errors=%d cases=%d heavy_inputs_skipped=%d\n", *n, compileErrs, cases, skipped)
		if compileErrs*10 > *n {
			return 2
		}
		return 0
	}
}

package main

// record-case: direction B for C20.  Metamorphic families under IgnoreCase: one pattern and one
// input, plus variants in which cased letters of the input, and literal letters / class members /
// range endpoints of the pattern, change case (letters whose fold orbit is a simple upper/lower
// pair only).  Every member of a family must produce the same outcome.

import (
	"bufio"
	"encoding/json"
	"flag"
	"fmt"
	"os"
	"unicode"
)

type CaseIV struct {
	S   []int `json:"s"`
	Res Res   `json:"res"`
}
type CasePV struct {
	P    Pat    `json:"p"`
	Text string `json:"text"`
	Res  Res    `json:"res"`
	Err  string `json:"err"`
}
type CaseRec struct {
	ID    int      `json:"id"`
	P     Pat      `json:"p"`
	O     []string `json:"o"`
	RTL   bool     `json:"rtl"`
	Text  string   `json:"text"`
	Exact bool     `json:"exact"`
	Mode  string   `json:"mode"`
	S     []int    `json:"s"`
	Base  Res      `json:"base"`
	IV    []CaseIV `json:"iv"`
	PV    []CasePV `json:"pv"`
}

func simplePair(r rune) bool {
	o := unicode.SimpleFold(r)
	return o != r && unicode.SimpleFold(o) == r && (unicode.ToLower(r) == o || unicode.ToUpper(r) == o) &&
		unicode.ToLower(unicode.ToUpper(r)) == unicode.ToLower(r) && unicode.ToUpper(unicode.ToLower(r)) == unicode.ToUpper(r)
}

func flipRune(c int) int {
	r := rune(c)
	if !simplePair(r) {
		return c
	}
	return int(unicode.SimpleFold(r))
}

func flipTree(t *Tree, which func(leafIndex int) bool) *Tree {
	idx := 0
	var rec func(t *Tree) *Tree
	rec = func(t *Tree) *Tree {
		nt := &Tree{N: t.N}
		if t.N.Op == "chr" {
			idx++
			if which(idx) {
				rs := make([][2]int, len(t.N.Rs))
				for i, r := range t.N.Rs {
					lo, hi := flipRune(r[0]), flipRune(r[1])
					if lo > hi || (hi-lo) != (r[1]-r[0]) {
						lo, hi = r[0], r[1] // flipping must keep the range a range of the same letters
					}
					rs[i] = [2]int{lo, hi}
				}
				nt.N.Rs = rs
			}
		}
		for _, k := range t.Kids {
			nt.Kids = append(nt.Kids, rec(k))
		}
		return nt
	}
	return rec(t)
}

func init() {
	commands["record-case"] = func(args []string) int {
		fs := flag.NewFlagSet("record-case", flag.ExitOnError)
		n := fs.Int("n", 500, "patterns")
		ni := fs.Int("inputs", 4, "inputs per pattern")
		maxLen := fs.Int("maxlen", 10, "max input length")
		rtl := fs.String("rtl", "no", "no|yes|both")
		out := fs.String("o", "-", "output file")
		stream := fs.Uint64("stream", 1, "PRNG stream")
		fs.Parse(args)
		w := bufio.NewWriterSize(os.Stdout, 1<<20)
		if *out != "-" {
			f, err := os.Create(*out)
			if err != nil {
				fmt.Fprintln(os.Stderr, err)
				return 2
			}
			defer f.Close()
			w = bufio.NewWriterSize(f, 1<<20)
		}
		defer w.Flush()
		enc := json.NewEncoder(w)
		enc.SetEscapeHTML(false)

		cfg := cfgC01()
		// letters with a simple upper/lower pair: ASCII (not k, s), Latin-1, Greek, Cyrillic; plus uncased fillers
		cfg.Letters = []int{'a', 'b', 'c', 'A', 'B', 'e', 'T', 0xe9, 0xc9, 0x3b1, 0x391, 0x3b4, 0x430, 0x410, 0x44f, '_', ' ', '1', '-'}
		for _, c := range cfg.Letters {
			if unicode.IsLetter(rune(c)) && !simplePair(rune(c)) {
				fmt.Fprintf(os.Stderr, "letter %c is not a simple pair\n", c)
				return 2
			}
		}
		cfg.InlineOpts = "ms"
		cfg.Shorthands = true
		g := &Gen{r: newRand(seedFromEnv(), *stream), c: cfg}
		alpha := append(append([]int{}, cfg.Letters...), 'C', 'E', 't', 0x394, 0x42f, '\n')
		compileErrs, fams := 0, 0
		id := 0
		for pi := 1; pi <= *n; pi++ {
			o := append([]string{"i"}, randOpts(g, "msn", 0.12)...)
			g.N = has(o, "n")
			var t *Tree
			exact := true
			if g.chance(0.3) {
				g.ng, g.nms = 0, nil
				t = g.accelPattern()
			} else {
				t = g.Pattern()
			}
			isRTL := *rtl == "yes" || (*rtl == "both" && g.chance(0.3))
			g.resolveRefs(t, has(o, "n"))
			p := Flatten(t)
			text := PrintPat(p, PrintOpts{})
			re, err := compile(text, optBits(o, "net", isRTL))
			if err != nil {
				compileErrs++
				fmt.Fprintf(os.Stderr, "compile error: %q: %v\n", text, err)
				continue
			}
			// pattern variants
			nleaf := 0
			flipTree(t, func(i int) bool { nleaf = i; return false })
			var pvs []CasePV
			var pvre []func(in []rune, st int) Res
			addPV := func(which func(int) bool) {
				ft := flipTree(t, which)
				fp := Flatten(ft)
				ftext := PrintPat(fp, PrintOpts{})
				if ftext == text {
					return
				}
				fre, err := compile(ftext, optBits(o, "net", isRTL))
				pv := CasePV{P: fp, Text: ftext}
				if err != nil {
					pv.Err = err.Error()
					pvs = append(pvs, pv)
					pvre = append(pvre, nil)
					return
				}
				pvs = append(pvs, pv)
				pvre = append(pvre, func(in []rune, st int) Res { return findRunesAt(fre, in, st) })
			}
			addPV(func(int) bool { return true })
			for k := 0; k < 3 && nleaf > 0; k++ {
				one := 1 + g.pick(nleaf)
				addPV(func(i int) bool { return i == one })
			}
			probe := newSpecProbe(text, optBits(o, "net", isRTL))
			for _, s := range g.Inputs(t, *ni, *maxLen, alpha) {
				in := intsToRunes(s)
				st := 0
				if isRTL {
					st = len(in)
				}
				if cheapest(func() { findRunesAt(re, in, st) }) > 60_000 || probe.heavy(in, isRTL) {
					continue
				}
				id++
				rec := CaseRec{ID: id, P: p, O: o, RTL: isRTL, Text: text, Exact: exact, Mode: findMode(re), S: s, Base: findRunesAt(re, in, st), IV: []CaseIV{}, PV: []CasePV{}}
				if rec.S == nil {
					rec.S = []int{}
				}
				// input variants: each cased position flipped alone, all flipped, random subsets
				addIV := func(f func(k int) bool) {
					v := make([]int, len(s))
					changed := false
					for k, c := range s {
						v[k] = c
						if f(k) {
							v[k] = flipRune(c)
							changed = changed || v[k] != c
						}
					}
					if changed {
						rec.IV = append(rec.IV, CaseIV{S: v, Res: findRunesAt(re, intsToRunes(v), st)})
					}
				}
				addIV(func(int) bool { return true })
				for k := range s {
					kk := k
					addIV(func(i int) bool { return i == kk })
				}
				for r := 0; r < 3; r++ {
					mask := g.r.Uint64()
					addIV(func(i int) bool { return mask&(1<<uint(i%64)) != 0 })
				}
				for k, pv := range pvs {
					v := pv
					if pvre[k] != nil {
						v.Res = pvre[k](in, st)
					} else {
						v.Res = Res{Caps: [][][2]int{}}
					}
					rec.PV = append(rec.PV, v)
				}
				fams++
				enc.Encode(rec)
			}
		}
		// hand-written families for constructs the AST does not carry (class subtraction, negated classes with
		// subtraction, back-references to named groups): base pattern, case-flipped pattern, relational only
		raw := [][2]string{{`[a-f-[b]]`, `[A-F-[B]]`}, {`[^a-c-[e]]`, `[^A-C-[E]]`}, {`c[a-c-[b]]+e`, `C[A-C-[B]]+E`}, {`[\w-[a-c]]+`, `[\w-[A-C]]+`},
			{`(?<n>a|b)c\k<n>`, `(?<n>A|B)C\k<n>`}, {`[a-f-[c-e-[d]]]+`, `[A-F-[C-E-[D]]]+`}, {`(?:[^é]|ee)t`, `(?:[^É]|EE)T`}, {`[α-δ-[β]]+`, `[Α-Δ-[Β]]+`},
			{`ab[^a-c-[b]]`, `AB[^A-C-[B]]`}, {`(?<=[a-c-[b]])e`, `(?<=[A-C-[B]])E`}}
		for _, fam := range raw {
			reB, errB := compile(fam[0], optBits([]string{"i"}, "net", false))
			reV, errV := compile(fam[1], optBits([]string{"i"}, "net", false))
			if errB != nil || errV != nil {
				fmt.Fprintf(os.Stderr, "compile error in raw family %q: %v %v\n", fam[0], errB, errV)
				return 2
			}
			for k := 0; k < 40; k++ {
				l := g.pick(7)
				s := make([]int, l)
				for i := range s {
					s[i] = []int{'a', 'b', 'c', 'd', 'e', 'f', 't', 'A', 'B', 'C', 'D', 'E', 'F', 'T', 0xe9, 0xc9, 0x3b1, 0x3b2, 0x3b3, 0x391, 0x392, 0x393, '1', 'z'}[g.pick(24)]
				}
				in := intsToRunes(s)
				id++
				rec := CaseRec{ID: id, P: Pat{}, O: []string{"i"}, Text: fam[0], Exact: false, Mode: findMode(reB), S: s, Base: findRunesAt(reB, in, 0), IV: []CaseIV{}, PV: []CasePV{}}
				v := make([]int, len(s))
				for i, c := range s {
					v[i] = flipRune(c)
				}
				rec.IV = append(rec.IV, CaseIV{S: v, Res: findRunesAt(reB, intsToRunes(v), 0)})
				for i := range s {
					w := append([]int{}, s...)
					w[i] = flipRune(w[i])
					rec.IV = append(rec.IV, CaseIV{S: w, Res: findRunesAt(reB, intsToRunes(w), 0)})
				}
				rec.PV = append(rec.PV, CasePV{P: Pat{}, Text: fam[1], Res: findRunesAt(reV, in, 0)})
				fams++
				enc.Encode(rec)
			}
		}
		fmt.Fprintf(os.Stderr, "record-case: patterns=%d compile_errors=%d families=%d\n", *n, compileErrs, fams)
		if compileErrs*10 > *n {
			return 2
		}
		return 0
	}
}

package main

// record-class: direction B for C16.  Generates class expressions from a random class grammar,
// prints them, and records the membership the real engine computes for ALL runes, through several
// lookup paths.  TLC (spec/Obs_Class.tla) compares with spec/CharClass.tla.

import (
	"bufio"
	"encoding/json"
	"flag"
	"fmt"
	"os"
	"runtime"
	"strings"
	"sync"
	"unicode"

	regexp2 "github.com/dlclark/regexp2/v2"
	"github.com/dlclark/regexp2/v2/syntax"
)

type CatRef struct {
	N   string `json:"n"`
	Neg bool   `json:"neg"`
}

type ClassExpr struct {
	Rs    [][2]int    `json:"rs"`
	Cats  []CatRef    `json:"cats"`
	Shs   []string    `json:"shs"`
	Posix []CatRef    `json:"posix"`
	Neg   bool        `json:"neg"`
	Sub   []ClassExpr `json:"sub"`
}

type ClassPath struct {
	Name string `json:"name"`
	Diff []int  `json:"diff"` // runes at which this lookup path disagrees with the reference path
}

type ClassRec struct {
	ID     int         `json:"id"`
	Cls    ClassExpr   `json:"cls"`
	Text   string      `json:"text"`
	IC     bool        `json:"ic"`
	Dia    string      `json:"dia"`
	Bitmap bool        `json:"bitmap"`
	Real   [][2]int    `json:"real"` // maximal ranges of members over 0..0x10FFFF (reference path: \A[...]\z on one rune)
	Full   [][2]int    `json:"full"` // ranges to compare pointwise (thorough tier)
	Paths  []ClassPath `json:"paths"`
}

func classChar(c int) string {
	switch c {
	case '\\', ']', '[', '^', '-':
		return `\` + string(rune(c))
	case '\n':
		return `\n`
	case '\t':
		return `\t`
	}
	if c < 0x20 || c == 0x7f {
		return fmt.Sprintf(`\x%02X`, c)
	}
	if c >= 0xD800 && c <= 0xDFFF {
		return fmt.Sprintf(`\u%04X`, c)
	}
	return string(rune(c))
}

func printClass(c ClassExpr) string {
	var sb strings.Builder
	sb.WriteString("[")
	if c.Neg {
		sb.WriteString("^")
	}
	end := func(c int) string {
		// an escaped hyphen is always a literal in regexp2 and can never start or end a range
		if c == '-' {
			return `\x2D`
		}
		return classChar(c)
	}
	for _, r := range c.Rs {
		if r[1] != r[0] {
			sb.WriteString(end(r[0]) + "-" + end(r[1]))
		} else {
			sb.WriteString(classChar(r[0]))
		}
	}
	for _, s := range c.Shs {
		sb.WriteString(`\` + s)
	}
	for _, ct := range c.Cats {
		if ct.Neg {
			sb.WriteString(`\P{` + ct.N + `}`)
		} else {
			sb.WriteString(`\p{` + ct.N + `}`)
		}
	}
	for _, p := range c.Posix {
		if p.Neg {
			sb.WriteString(`[:^` + p.N + `:]`)
		} else {
			sb.WriteString(`[:` + p.N + `:]`)
		}
	}
	if len(c.Sub) > 0 {
		sb.WriteString("-" + printClass(c.Sub[0]))
	}
	sb.WriteString("]")
	return sb.String()
}

var classCats = []string{"L", "Lu", "Ll", "Lt", "Lm", "Lo", "M", "Mn", "Mc", "N", "Nd", "Nl", "No", "P", "Pd", "Ps", "S", "Sm", "Sc", "Z", "Zs", "C", "Cc", "Cf", "Greek", "Cyrillic", "Latin", "Han", "Hebrew"}
var posixNames = []string{"alnum", "alpha", "ascii", "blank", "cntrl", "digit", "graph", "lower", "print", "punct", "space", "upper", "word", "xdigit"}

func (g *Gen) classExpr(depth int, ic bool, dia string) ClassExpr {
	c := ClassExpr{Rs: [][2]int{}, Cats: []CatRef{}, Shs: []string{}, Posix: []CatRef{}, Sub: []ClassExpr{}}
	c.Neg = g.chance(0.3)
	n := 1 + g.pick(3)
	for i := 0; i < n; i++ {
		switch k := g.pick(10); {
		case k < 3: // single chars incl. ones needing escapes
			ch := []int{'a', 'b', 'z', 'A', 'Z', '0', '9', '_', '-', ']', '^', '\\', ' ', '\n', 'k', 's', 0xe9, 0x3b1, 0x430}[g.pick(19)]
			if g.chance(0.1) {
				ch = []int{0x130, 0x131, 0x17F, 0x212A, 0x3C2, 0x1E9E, 0xDF, 0x1C5, 0x3A3, 0x10400}[g.pick(10)]
			}
			c.Rs = append(c.Rs, [2]int{ch, ch})
		case k < 6 && g.chance(0.25): // a narrow range around a cased rune of any script (the range lower-casing path)
			r := 0x41
			for tries := 0; tries < 200; tries++ {
				c := g.pick(0x1FFFF)
				if unicode.SimpleFold(rune(c)) != rune(c) {
					r = c
					break
				}
			}
			lo := r - g.pick(2)
			c.Rs = append(c.Rs, [2]int{lo, lo + 1 + g.pick(3)})
		case k < 6: // ranges
			var lo, hi int
			if g.chance(0.5) {
				lo = 0x20 + g.pick(0x5f)
				hi = lo + g.pick(0x7e-lo+1)
			} else {
				switch g.pick(4) {
				case 0:
					lo = g.pick(0x250)
					hi = lo + g.pick(0x100)
				case 1:
					lo = 0x370 + g.pick(0x100)
					hi = lo + g.pick(0x200)
				case 2:
					lo = g.pick(0xD7FF)
					hi = lo + g.pick(0x3000)
					if hi > 0xD7FF {
						hi = 0xD7FF
					}
				default:
					lo = 0xE000 + g.pick(0x100000)
					hi = lo + g.pick(0x20000)
					if hi > 0x10FFFF {
						hi = 0x10FFFF
					}
				}
			}
			c.Rs = append(c.Rs, [2]int{lo, hi})
		case k < 8:
			c.Shs = append(c.Shs, []string{"d", "D", "w", "W", "s", "S"}[g.pick(6)])
		case k < 9 && dia != "ecma":
			c.Cats = append(c.Cats, CatRef{N: classCats[g.pick(len(classCats))], Neg: g.chance(0.3)})
		case dia == "re2":
			c.Posix = append(c.Posix, CatRef{N: posixNames[g.pick(len(posixNames))], Neg: g.chance(0.25)})
		default:
			c.Rs = append(c.Rs, [2]int{'m', 'p'})
		}
	}
	if g.chance(0.08) {
		// everything except one gap, written positively (stored in complemented form by the canonicaliser)
		gap := [][2]int{{'A', 'Z'}, {'a', 'z'}, {'0', '9'}, {'K', 'K'}, {0x391, 0x3A9}, {0x212A, 0x212A}, {'A', 'z'}, {0xC0, 0xDE}}[g.pick(8)]
		c.Rs = append(c.Rs, [2]int{0, gap[0] - 1}, [2]int{gap[1] + 1, 0x10FFFF})
	}
	if g.chance(0.06) {
		// a base that is everything, written as complementary parts (only a subtraction can remove members)
		switch g.pick(4) {
		case 0:
			c.Shs = append(c.Shs, "w", "W")
		case 1:
			c.Shs = append(c.Shs, "s", "S")
		case 2:
			c.Shs = append(c.Shs, "d", "D")
		default:
			c.Rs = append(c.Rs, [2]int{0, 0x10FFFF})
		}
		if depth > 0 && len(c.Sub) == 0 {
			c.Sub = []ClassExpr{g.classExpr(depth-1, ic, dia)}
		}
	}
	if depth > 0 && len(c.Sub) == 0 && g.chance(0.35) {
		c.Sub = []ClassExpr{g.classExpr(depth-1, ic, dia)}
	}
	return c
}

func memberRanges(f func(r rune) bool, lo, hi int) [][2]int {
	out := [][2]int{}
	start := -1
	for c := lo; c <= hi+1; c++ {
		in := c <= hi && f(rune(c))
		if in && start < 0 {
			start = c
		}
		if !in && start >= 0 {
			out = append(out, [2]int{start, c - 1})
			start = -1
		}
	}
	return out
}

func classRecord(id int, cls ClassExpr, ic bool, dia string, bitmap bool, full [][2]int, sample []int) (ClassRec, error) {
	text := printClass(cls)
	rec := ClassRec{ID: id, Cls: cls, Text: text, IC: ic, Dia: dia, Bitmap: bitmap, Full: full, Paths: []ClassPath{}}
	if rec.Full == nil {
		rec.Full = [][2]int{}
	}
	o := []string{}
	if ic {
		o = append(o, "i")
	}
	extra := []regexp2.CompileOption{}
	if !bitmap {
		extra = append(extra, regexp2.OptionDisableCharClassASCIIBitmap())
	}
	opts := optBits(o, dia, false)
	ref, err := compile(`\A`+text+`\z`, opts, extra...)
	if err != nil {
		return rec, err
	}
	buf := make([]rune, 1)
	refIn := func(r rune) bool {
		buf[0] = r
		ok, _ := ref.MatchRunes(buf)
		return ok
	}
	rec.Real = memberRanges(refIn, 0, 0x10FFFF)
	inReal := func(c int) bool {
		for _, r := range rec.Real {
			if c >= r[0] && c <= r[1] {
				return true
			}
		}
		return false
	}
	// other lookup paths, compared on the sample domain
	type path struct {
		name string
		f    func(r rune) bool
	}
	var paths []path
	if tree, err := syntax.Parse(text, syntax.ParseOptions{RegexOptions: syntax.RegexOptions(opts)}); err == nil {
		// the class as parsed, before the writer's normalisations (when it is still a set node)
		n := tree.Root
		for n != nil && len(n.Children) == 1 && n.Set == nil {
			n = n.Children[0]
		}
		if n != nil && n.Set != nil {
			set := n.Set
			paths = append(paths, path{"CharSet.CharIn(parsed)", func(r rune) bool { return set.CharIn(r) }})
		}
	}
	mk := func(name, pat string, in func(r rune) []rune, want func(m *regexp2.Match) bool) {
		re, err := compile(pat, opts, extra...)
		if err != nil {
			return
		}
		paths = append(paths, path{name, func(r rune) bool {
			m, _ := re.FindRunesMatch(in(r))
			return m != nil && want(m)
		}})
	}
	mk("loop "+"(?:[..])+", `\A(?:`+text+`)+\z`, func(r rune) []rune { return []rune{r, r} }, func(m *regexp2.Match) bool { return true })
	mk("lazy loop", `\A`+text+`+?\z`, func(r rune) []rune { return []rune{r} }, func(m *regexp2.Match) bool { return true })
	mk("prefix-set search", text+`\z`, func(r rune) []rune { return []rune{0x1F601, 0x1F601, r} }, func(m *regexp2.Match) bool { return m.RuneIndex == 2 })
	mk("after loop x*[..]", `\A☃*`+text+`\z`, func(r rune) []rune { return []rune{0x2603, r} }, func(m *regexp2.Match) bool { return true })
	mk("alternation", `\A(?:`+text+`|￿￿)\z`, func(r rune) []rune { return []rune{r} }, func(m *regexp2.Match) bool { return true })
	mk("right-to-left", `(?r)\A`+text+`\z`, func(r rune) []rune { return []rune{r} }, func(m *regexp2.Match) bool { return true })
	if dia == "ecma" {
		paths = paths[:min(len(paths), 5)]
	}
	for _, p := range paths {
		cp := ClassPath{Name: p.name, Diff: []int{}}
		for _, c := range sample {
			if p.name == "prefix-set search" && c == 0x1F601 {
				continue
			}
			if p.f(rune(c)) != inReal(c) && len(cp.Diff) < 20 {
				cp.Diff = append(cp.Diff, c)
			}
		}
		rec.Paths = append(rec.Paths, cp)
	}
	return rec, nil
}

func init() {
	commands["record-class"] = func(args []string) int {
		fs := flag.NewFlagSet("record-class", flag.ExitOnError)
		n := fs.Int("n", 300, "classes")
		out := fs.String("o", "-", "output file")
		stream := fs.Uint64("stream", 1, "PRNG stream")
		fullN := fs.Int("full", 0, "compare this many runes pointwise per class (thorough; 1114112 = all)")
		caseFile := fs.String("case", "", "replay: JSON list of {cls,ic,dia,bitmap}")
		fs.Parse(args)

		w := bufio.NewWriterSize(os.Stdout, 1<<20)
		if *out != "-" {
			f, err := os.Create(*out)
			if err != nil {
				fmt.Fprintln(os.Stderr, err)
				return 2
			}
			defer f.Close()
			w = bufio.NewWriterSize(f, 1<<20)
		}
		defer w.Flush()
		enc := json.NewEncoder(w)
		enc.SetEscapeHTML(false)
		g := &Gen{r: newRand(seedFromEnv(), *stream)}

		// sample domain for the secondary paths: Latin, Greek, Cyrillic, punctuation, edges
		sample := []int{}
		for c := 0; c < 0x250; c++ {
			sample = append(sample, c)
		}
		for _, c := range []int{0x370, 0x37E, 0x391, 0x3A9, 0x3B1, 0x3C2, 0x3C3, 0x410, 0x430, 0x44F, 0x5D0, 0x660, 0x2028, 0x200C, 0x200D, 0x2603, 0x3000, 0x4E00, 0xD7FF, 0xE000, 0xFFFD, 0xFFFF, 0x10000, 0x1D173, 0x1F600, 0xE0001, 0x10FFFF} {
			sample = append(sample, c)
		}
		for i := 0; i < 300; i++ {
			sample = append(sample, g.pick(0x110000))
		}

		if *caseFile != "" {
			var cs []struct {
				Cls    ClassExpr `json:"cls"`
				IC     bool      `json:"ic"`
				Dia    string    `json:"dia"`
				Bitmap bool      `json:"bitmap"`
			}
			data, err := os.ReadFile(*caseFile)
			if err == nil {
				err = json.Unmarshal(data, &cs)
			}
			if err != nil {
				fmt.Fprintln(os.Stderr, err)
				return 2
			}
			for i, c := range cs {
				rec, err := classRecord(i+1, c.Cls, c.IC, c.Dia, c.Bitmap, nil, sample)
				if err != nil {
					fmt.Fprintln(os.Stderr, "compile error:", err)
					return 2
				}
				enc.Encode(rec)
			}
			return 0
		}

		compileErrs := 0
		type job struct {
			id     int
			cls    ClassExpr
			ic     bool
			dia    string
			bitmap bool
			full   [][2]int
		}
		jobs := []job{}
		for id := 1; id <= *n; id++ {
			ic := g.chance(0.3)
			dia := []string{"net", "net", "net", "re2", "ecma"}[g.pick(5)]
			cls := g.classExpr(2, ic, dia)
			var full [][2]int
			if *fullN >= 0x110000 {
				full = [][2]int{{0, 0x10FFFF}}
			} else if *fullN > 0 {
				lo := g.pick(0x110000 - *fullN)
				full = [][2]int{{lo, lo + *fullN - 1}}
			}
			jobs = append(jobs, job{id, cls, ic, dia, g.chance(0.5), full})
		}
		results := make([]*ClassRec, len(jobs))
		var wg sync.WaitGroup
		var mu sync.Mutex
		sem := make(chan struct{}, runtime.NumCPU())
		for i, jb := range jobs {
			wg.Add(1)
			sem <- struct{}{}
			go func(i int, jb job) {
				defer wg.Done()
				defer func() { <-sem }()
				rec, err := classRecord(jb.id, jb.cls, jb.ic, jb.dia, jb.bitmap, jb.full, sample)
				if err != nil {
					mu.Lock()
					compileErrs++
					fmt.Fprintf(os.Stderr, "compile error %q: %v\n", rec.Text, err)
					mu.Unlock()
					return
				}
				results[i] = &rec
			}(i, jb)
		}
		wg.Wait()
		for _, r := range results {
			if r != nil {
				enc.Encode(r)
			}
		}
		fmt.Fprintf(os.Stderr, "record-class: classes=%d compile_errors=%d\n", *n, compileErrs)
		if compileErrs*10 > *n {
			return 2
		}
		return 0
	}
}

package main

// record-escape: direction B for C19.

import (
	"bufio"
	"encoding/json"
	"flag"
	"fmt"
	"os"

	regexp2 "github.com/dlclark/regexp2/v2"
)

type EscNb struct {
	S       []int `json:"s"`
	Matched bool  `json:"matched"`
}

type EscRow struct {
	O        string  `json:"o"`
	IC       bool    `json:"ic"`
	Compiled bool    `json:"compiled"`
	Self     bool    `json:"self"`
	Nb       []EscNb `json:"nb"`
	Err      string  `json:"err"`
}

type EscRec struct {
	ID    int      `json:"id"`
	S     []int    `json:"s"`
	E     []int    `json:"e"`
	U     []int    `json:"u"`
	UErr  string   `json:"uerr"`
	Table []EscRow `json:"table"`
}

// one representative per branch of Escape / the parser
var escAlphabet = []int{'a', 'Z', '5', '_', '\\', '.', '+', '*', '?', '(', ')', '|', '[', ']', '{', '}', '^', '$', '#', ' ', '-', '\t', '\n', '\v', '\f', '\r',
	0x07, 0x1b, 0x00, 0x1f, 0x7f, 0x85, 0xa0, 0xe9, 0x378, 0x200b, 0x2028, 0x3000, 0xfffd, 0xffff, 0x301, 0x1d173, 0xe0001, 0x10ffff, 0x1F600, '/', ',', '=', '!', '<', '>', ':', '\'', '"', '&', '~', '`', '@', '%'}

var escOptionSets = []struct {
	name string
	opt  regexp2.RegexOptions
	ic   bool
}{
	{"none", 0, false}, {"x", regexp2.IgnorePatternWhitespace, false}, {"m", regexp2.Multiline, false}, {"s", regexp2.Singleline, false},
	{"n", regexp2.ExplicitCapture, false}, {"xmsn", regexp2.IgnorePatternWhitespace | regexp2.Multiline | regexp2.Singleline | regexp2.ExplicitCapture, false},
	{"re2", regexp2.RE2, false}, {"rtl", regexp2.RightToLeft, false}, {"i", regexp2.IgnoreCase, true}, {"ix", regexp2.IgnoreCase | regexp2.IgnorePatternWhitespace, true},
}

func escRecord(id int, s []int, g *Gen) EscRec {
	str := string(intsToRunes(s))
	rec := EscRec{ID: id, S: s, E: []int{}, U: []int{}, Table: []EscRow{}}
	if rec.S == nil {
		rec.S = []int{}
	}
	var e string
	if err := safely(func() error { e = regexp2.Escape(str); return nil }); err != nil {
		rec.UErr = err.Error()
		return rec
	}
	rec.E = runesToInts([]rune(e))
	var u string
	err := safely(func() (er error) { u, er = regexp2.Unescape(e); return })
	rec.U = runesToInts([]rune(u))
	if err != nil {
		rec.UErr = err.Error()
	}
	// neighbours: one edit away
	nbs := [][]int{append(append([]int{}, s...), 'a'), append([]int{'a'}, s...)}
	for k := range s {
		del := append(append([]int{}, s[:k]...), s[k+1:]...)
		nbs = append(nbs, del)
		sub := append([]int{}, s...)
		sub[k] = escAlphabet[(s[k]+k+7)%len(escAlphabet)]
		nbs = append(nbs, sub)
		flip := append([]int{}, s...)
		if flip[k] >= 'a' && flip[k] <= 'z' {
			flip[k] -= 32
		} else if flip[k] >= 'A' && flip[k] <= 'Z' {
			flip[k] += 32
		} else if flip[k] == 0xe9 {
			flip[k] = 0xc9
		}
		nbs = append(nbs, flip)
		dup := append(append(append([]int{}, s[:k+1]...), s[k]), s[k+1:]...)
		nbs = append(nbs, dup)
	}
	nbs = append(nbs, []int{})
	for _, os := range escOptionSets {
		row := EscRow{O: os.name, IC: os.ic, Nb: []EscNb{}}
		re, err := compile(`\A(?:`+e+`)\z`, os.opt)
		if err != nil {
			row.Err = err.Error()
			rec.Table = append(rec.Table, row)
			continue
		}
		row.Compiled = true
		row.Self, _ = re.MatchRunes(intsToRunes(s))
		for _, nb := range nbs {
			m, _ := re.MatchRunes(intsToRunes(nb))
			n := nb
			if n == nil {
				n = []int{}
			}
			row.Nb = append(row.Nb, EscNb{S: n, Matched: m})
		}
		rec.Table = append(rec.Table, row)
	}
	return rec
}

func init() {
	commands["record-escape"] = func(args []string) int {
		fs := flag.NewFlagSet("record-escape", flag.ExitOnError)
		maxLen := fs.Int("exhaustive", 2, "all strings over the alphabet up to this length")
		nrand := fs.Int("random", 500, "additional random strings")
		stride := fs.Int("stride", 1, "keep every stride-th exhaustive string")
		out := fs.String("o", "-", "output file")
		stream := fs.Uint64("stream", 1, "PRNG stream")
		fs.Parse(args)
		w := bufio.NewWriterSize(os.Stdout, 1<<20)
		if *out != "-" {
			f, err := os.Create(*out)
			if err != nil {
				fmt.Fprintln(os.Stderr, err)
				return 2
			}
			defer f.Close()
			w = bufio.NewWriterSize(f, 1<<20)
		}
		defer w.Flush()
		enc := json.NewEncoder(w)
		enc.SetEscapeHTML(false)
		g := &Gen{r: newRand(seedFromEnv(), *stream)}
		id := 0
		var rec func(prefix []int, depth int)
		count := 0
		rec = func(prefix []int, depth int) {
			count++
			if (count+int(seedFromEnv()))%*stride == 0 {
				id++
				enc.Encode(escRecord(id, append([]int{}, prefix...), g))
			}
			if depth == 0 {
				return
			}
			for _, c := range escAlphabet {
				rec(append(prefix, c), depth-1)
			}
		}
		rec([]int{}, *maxLen)
		for i := 0; i < *nrand; i++ {
			n := 1 + g.pick(8)
			s := make([]int, n)
			for k := range s {
				switch g.pick(4) {
				case 0:
					s[k] = escAlphabet[g.pick(len(escAlphabet))]
				case 1:
					s[k] = g.pick(0x300)
				case 2:
					s[k] = g.pick(0xD800)
				default:
					s[k] = 0xE000 + g.pick(0x110000-0xE000)
				}
			}
			id++
			enc.Encode(escRecord(id, s, g))
		}
		fmt.Fprintf(os.Stderr, "record-escape: strings=%d alphabet=%d\n", id, len(escAlphabet))
		return 0
	}
}

package main

// record-facts: direction B for C04.  Exports every compile-time fact the real compiler publishes
// for a pattern (FindOptimizations, FcPrefix, BmPrefix, Anchors), with sets given as their
// membership over the test alphabet.  TLC (spec/Obs_Facts.tla) enumerates EVERY string over the
// alphabet up to a length bound and every attempt position, computes the matches with RegexSem and
// checks spec/Facts.tla's FactsHold at each of them.

import (
	"bufio"
	"encoding/json"
	"flag"
	"fmt"
	"os"

	regexp2 "github.com/dlclark/regexp2/v2"
	"github.com/dlclark/regexp2/v2/syntax"
)

type FSet struct {
	In   []int `json:"in"`
	Dist int   `json:"dist"`
}

type FLandmarkAlt struct {
	Lit   []int `json:"lit"`
	Set   []int `json:"set"`
	IsSet bool  `json:"isset"`
	Min   int   `json:"min"`
	Max   int   `json:"max"`
	WsB   []int `json:"wsb"`
	WsA   []int `json:"wsa"`
	ReqB  bool  `json:"reqb"`
	ReqA  bool  `json:"reqa"`
}

type Facts struct {
	Mode       string  `json:"mode"`
	MinLen     int     `json:"minlen"`
	MaxLen     int     `json:"maxlen"`
	Lead       string  `json:"lead"`
	Trail      string  `json:"trail"`
	Prefix     []int   `json:"prefix"`
	PrefixIC   bool    `json:"prefixic"`
	Prefixes   [][]int `json:"prefixes"`
	PrefixesIC bool    `json:"prefixesic"`
	FdKind     string  `json:"fdkind"`
	FdStr      []int   `json:"fdstr"`
	FdChar     int     `json:"fdchar"`
	FdDist     int     `json:"fddist"`
	FdSets     []FSet  `json:"fdsets"`
	Lal        struct {
		Present bool  `json:"present"`
		Str     []int `json:"str"`
		StrIC   bool  `json:"stric"`
		Char    int   `json:"char"`
		Chars   []int `json:"chars"`
		Loop    []int `json:"loop"`
	} `json:"lal"`
	Chain struct {
		Present bool             `json:"present"`
		Loop    []int            `json:"loop"`
		Lms     [][]FLandmarkAlt `json:"lms"`
	} `json:"chain"`
	Fc struct {
		Present bool  `json:"present"`
		In      []int `json:"in"`
		CI      bool  `json:"ci"`
	} `json:"fc"`
	Bm struct {
		Present bool  `json:"present"`
		Pat     []int `json:"pat"`
		CI      bool  `json:"ci"`
	} `json:"bm"`
	Anch []string `json:"anch"`
}

type FactsRec struct {
	ID      int      `json:"id"`
	P       Pat      `json:"p"`
	O       []string `json:"o"`
	Dia     string   `json:"dia"`
	RTL     bool     `json:"rtl"`
	Text    string   `json:"text"`
	CodeGen bool     `json:"codegen"`
	Alpha   []int    `json:"alpha"`
	MaxLen  int      `json:"maxlen"`
	Extra   [][]int  `json:"extra"` // longer, pattern-directed strings over the same alphabet (patterns whose matches are longer than maxlen)
	Facts   Facts    `json:"facts"`
}

var errTooHeavy = fmt.Errorf("too expensive for the specification")

func members(set interface{ CharIn(rune) bool }, alpha []int) []int {
	out := []int{}
	for _, c := range alpha {
		if set.CharIn(rune(c)) {
			out = append(out, c)
		}
	}
	return out
}

func anchorName(t syntax.NodeType) string {
	switch t {
	case syntax.NtBeginning:
		return "Beginning"
	case syntax.NtStart:
		return "Start"
	case syntax.NtEndZ:
		return "EndZ"
	case syntax.NtEnd:
		return "End"
	case syntax.NtBol:
		return "Bol"
	case syntax.NtEol:
		return "Eol"
	case syntax.NtBoundary:
		return "Boundary"
	case syntax.NtECMABoundary:
		return "ECMABoundary"
	}
	return ""
}

func exportFacts(re *regexp2.Regexp, alpha []int) Facts {
	code := regexp2.VerifCode(re)
	f := Facts{Prefix: []int{}, Prefixes: [][]int{}, FdStr: []int{}, FdSets: []FSet{}, Anch: []string{}, MaxLen: -1}
	f.Lal.Str, f.Lal.Chars, f.Lal.Loop = []int{}, []int{}, []int{}
	f.Chain.Loop, f.Chain.Lms = []int{}, [][]FLandmarkAlt{}
	f.Fc.In, f.Bm.Pat = []int{}, []int{}
	if fo := code.FindOptimizations; fo != nil {
		f.Mode = fo.FindMode.String()
		f.MinLen, f.MaxLen = fo.MinRequiredLength, fo.MaxPossibleLength
		f.Lead, f.Trail = anchorName(fo.LeadingAnchor), anchorName(fo.TrailingAnchor)
		f.Prefix = runesToInts([]rune(fo.LeadingPrefix))
		f.PrefixIC = fo.FindMode == syntax.LeadingString_OrdinalIgnoreCase_LeftToRight
		for _, p := range fo.LeadingPrefixes {
			f.Prefixes = append(f.Prefixes, runesToInts([]rune(p)))
		}
		f.PrefixesIC = fo.FindMode == syntax.LeadingStrings_OrdinalIgnoreCase_LeftToRight
		switch fo.FindMode {
		case syntax.FixedDistanceChar_LeftToRight, syntax.LeadingChar_RightToLeft:
			f.FdKind, f.FdChar, f.FdDist = "char", int(fo.FixedDistanceLiteral.C), fo.FixedDistanceLiteral.Distance
		case syntax.FixedDistanceString_LeftToRight:
			f.FdKind, f.FdStr, f.FdDist = "string", runesToInts([]rune(fo.FixedDistanceLiteral.S)), fo.FixedDistanceLiteral.Distance
		}
		for _, s := range fo.FixedDistanceSets {
			if s.Set != nil {
				f.FdSets = append(f.FdSets, FSet{In: members(s.Set, alpha), Dist: s.Distance})
			}
		}
		if l := fo.LiteralAfterLoop; l != nil && l.LoopNode != nil && l.LoopNode.Set != nil {
			f.Lal.Present = true
			f.Lal.Str, f.Lal.StrIC = runesToInts([]rune(l.String)), l.StringIgnoreCase
			f.Lal.Char, f.Lal.Chars = int(l.Char), runesToInts(l.Chars)
			f.Lal.Loop = members(l.LoopNode.Set, alpha)
		}
		if ch := fo.LandmarkChain; ch != nil && ch.LeadingLoopSet != nil {
			f.Chain.Present = true
			f.Chain.Loop = members(ch.LeadingLoopSet, alpha)
			for _, lm := range ch.Landmarks {
				alts := []FLandmarkAlt{}
				for _, a := range lm.Alternatives {
					fa := FLandmarkAlt{Lit: runesToInts(a.Literal), Set: []int{}, Min: a.MinRepeat, Max: a.MaxRepeat, WsB: []int{}, WsA: []int{}, ReqB: a.RequireWhitespaceBefore, ReqA: a.RequireWhitespaceAfter}
					if len(a.Literal) == 0 && a.Set != nil {
						fa.IsSet, fa.Set = true, members(a.Set, alpha)
					}
					if a.LeadingWhitespaceSet != nil {
						fa.WsB = members(a.LeadingWhitespaceSet, alpha)
					}
					if a.TrailingWhitespaceSet != nil {
						fa.WsA = members(a.TrailingWhitespaceSet, alpha)
					}
					alts = append(alts, fa)
				}
				f.Chain.Lms = append(f.Chain.Lms, alts)
			}
		}
	}
	if code.FcPrefix != nil {
		f.Fc.Present, f.Fc.CI = true, code.FcPrefix.CaseInsensitive
		f.Fc.In = members(code.FcPrefix.PrefixSet, alpha)
	}
	if code.BmPrefix != nil {
		f.Bm.Present = true
		f.Bm.Pat = runesToInts([]rune(code.BmPrefix.String()))
		// the Boyer-Moore machine lower-cases its pattern when it is case-insensitive
		f.Bm.CI = code.BmPrefix.IsMatch([]rune(string(intsToRunes(upperInts(f.Bm.Pat)))), 0, 0, len(f.Bm.Pat)) && string(intsToRunes(upperInts(f.Bm.Pat))) != string(intsToRunes(f.Bm.Pat))
	}
	for bit, name := range map[syntax.AnchorLoc]string{syntax.AnchorBeginning: "Beginning", syntax.AnchorBol: "Bol", syntax.AnchorStart: "Start", syntax.AnchorEol: "Eol",
		syntax.AnchorEndZ: "EndZ", syntax.AnchorEnd: "End", syntax.AnchorBoundary: "Boundary", syntax.AnchorECMABoundary: "ECMABoundary"} {
		if code.Anchors&bit != 0 {
			f.Anch = append(f.Anch, name)
		}
	}
	return f
}

func upperInts(s []int) []int {
	out := make([]int, len(s))
	for i, c := range s {
		if c >= 'a' && c <= 'z' {
			c -= 32
		}
		out[i] = c
	}
	return out
}

func init() {
	commands["record-facts"] = func(args []string) int {
		fs := flag.NewFlagSet("record-facts", flag.ExitOnError)
		n := fs.Int("n", 500, "patterns")
		maxLen := fs.Int("maxlen", 4, "exhaustive input length bound")
		rtl := fs.String("rtl", "no", "no|yes|both")
		out := fs.String("o", "-", "output file")
		stream := fs.Uint64("stream", 1, "PRNG stream")
		codegen := fs.String("codegen", "both", "no|yes|both")
		profile := fs.String("profile", "accel", "fragment|accel")
		caseFile := fs.String("case", "", "replay: JSON list of {p,o,dia,rtl,codegen,alpha,maxlen}")
		fs.Parse(args)

		w := bufio.NewWriterSize(os.Stdout, 1<<20)
		if *out != "-" {
			f, err := os.Create(*out)
			if err != nil {
				fmt.Fprintln(os.Stderr, err)
				return 2
			}
			defer f.Close()
			w = bufio.NewWriterSize(f, 1<<20)
		}
		defer w.Flush()
		enc := json.NewEncoder(w)
		enc.SetEscapeHTML(false)

		emit := func(id int, p Pat, o []string, dia string, isRTL, cg bool, alpha []int, ml int, extraIn [][]int) error {
			text := PrintPat(p, PrintOpts{RE2: dia == "re2"})
			extra := []regexp2.CompileOption{}
			if cg {
				extra = append(extra, regexp2.OptionIsCodeGen())
			}
			re, err := compile(text, optBits(o, dia, isRTL), extra...)
			if err != nil {
				return err
			}
			keep := [][]int{}
			probe := newSpecProbe(text, optBits(o, dia, isRTL))
			// TLC evaluates the pattern on EVERY string up to the bound: a pattern that is expensive for the plain backtracking
			// specification already on a few of them (nested nullable loops) is left to the other checks
			for k := 0; k <= len(alpha); k++ {
				var w []rune
				for i := 0; i < ml; i++ {
					if k < len(alpha) {
						w = append(w, rune(alpha[k]))
					} else {
						w = append(w, rune(alpha[i%len(alpha)]))
					}
				}
				if probe.heavyFor(w, 300, 900) {
					return errTooHeavy
				}
			}
			for _, in := range extraIn {
				if !probe.heavy(intsToRunes(in), isRTL) {
					keep = append(keep, in)
				}
			}
			return enc.Encode(FactsRec{ID: id, P: p, O: o, Dia: dia, RTL: isRTL, Text: text, CodeGen: cg, Alpha: alpha, MaxLen: ml, Extra: keep, Facts: exportFacts(re, alpha)})
		}

		if *caseFile != "" {
			var cs []struct {
				P       Pat      `json:"p"`
				O       []string `json:"o"`
				Dia     string   `json:"dia"`
				RTL     bool     `json:"rtl"`
				CodeGen bool     `json:"codegen"`
				Alpha   []int    `json:"alpha"`
				MaxLen  int      `json:"maxlen"`
				Extra   [][]int  `json:"extra"`
			}
			data, err := os.ReadFile(*caseFile)
			if err == nil {
				err = json.Unmarshal(data, &cs)
			}
			if err != nil {
				fmt.Fprintln(os.Stderr, err)
				return 2
			}
			for i, c := range cs {
				if err := emit(i+1, c.P, c.O, c.Dia, c.RTL, c.CodeGen, c.Alpha, c.MaxLen, c.Extra); err != nil {
					fmt.Fprintln(os.Stderr, "compile error:", err)
					return 2
				}
			}
			return 0
		}

		cfg := cfgC01()
		cfg.Letters = []int{'a', 'b', 'c', 'A', '\n', '=', ' '}
		cfg.MaxNodes = 8
		g := &Gen{r: newRand(seedFromEnv(), *stream), c: cfg}
		alpha := []int{'a', 'b', 'c', 'A', '\n', '=', ' ', '7'}
		compileErrs, heavy := 0, 0
		for id := 1; id <= *n; id++ {
			o := randOpts(g, "ims", 0.15)
			g.N = false
			var t *Tree
			if *profile == "accel" && g.chance(0.75) {
				g.ng, g.nms = 0, nil
				t = g.accelPattern()
			} else {
				t = g.Pattern()
			}
			isRTL := *rtl == "yes" || (*rtl == "both" && g.chance(0.3))
			cg := *codegen == "yes" || (*codegen == "both" && g.chance(0.5))
			g.resolveRefs(t, false)
			// the alphabet: letters of this pattern first, then fillers, at most 5 symbols
			seen, a := map[int]bool{}, []int{}
			var walk func(t *Tree)
			walk = func(t *Tree) {
				if t.N.Op == "chr" {
					for _, r := range t.N.Rs {
						for c := r[0]; c <= r[1] && c < r[0]+3; c++ {
							if !seen[c] && c < 0x10000 {
								seen[c] = true
								a = append(a, c)
							}
						}
					}
				}
				for _, k := range t.Kids {
					walk(k)
				}
			}
			walk(t)
			for _, c := range alpha {
				if len(a) >= 5 {
					break
				}
				if !seen[c] {
					seen[c] = true
					a = append(a, c)
				}
			}
			if len(a) > 5 {
				a = a[:5]
			}
			// pattern-directed strings over the same alphabet, longer than the exhaustive bound
			inAlpha := map[int]bool{}
			for _, c := range a {
				inAlpha[c] = true
			}
			var extraIn [][]int
			for _, in := range g.Inputs(t, 10, 14, a) {
				ok := len(in) > *maxLen
				for _, c := range in {
					if !inAlpha[c] {
						ok = false
					}
				}
				if ok && len(extraIn) < 6 {
					extraIn = append(extraIn, in)
				}
			}
			if err := emit(id, Flatten(t), o, "net", isRTL, cg, a, *maxLen, extraIn); err == errTooHeavy {
				heavy++
			} else if err != nil {
				compileErrs++
				fmt.Fprintf(os.Stderr, "compile error: %v\n", err)
			}
		}
		fmt.Fprintf(os.Stderr, "record-facts: patterns=%d compile_errors=%d too_heavy_for_the_specification=%d\n", *n, compileErrs, heavy)
		if compileErrs*10 > *n {
			return 2
		}
		return 0
	}
}

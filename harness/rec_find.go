package main

// record-find: direction B for C01 / C15 (and the exact-oracle legs of other properties).
// Generates source ASTs, prints them, compiles them with the real engine and records the result of
// FindRunesMatchStartingAt for every start offset of every input.  TLC (spec/Obs_Find.tla)
// recomputes each result from the specification.

import (
	"bufio"
	"encoding/json"
	"flag"
	"fmt"
	"os"
	"strings"
	"time"
)

// cheapest returns the smaller duration of two runs of f (the first run may pay for allocation)
func cheapest(f func()) time.Duration {
	best := time.Duration(1 << 62)
	for i := 0; i < 2; i++ {
		t := time.Now()
		f()
		if d := time.Since(t); d < best {
			best = d
		}
	}
	return best
}

type FindCase struct {
	S   []int `json:"s"`
	Res []Res `json:"res"` // Res[k] = result of the search started at offset k (k = 0..len)
}

type FindRec struct {
	ID    int        `json:"id"`
	P     Pat        `json:"p"`
	O     []string   `json:"o"`
	Dia   string     `json:"dia"`
	RTL   bool       `json:"rtl"`
	Text  string     `json:"text"`
	Cases []FindCase `json:"cases"`
}

func randOpts(g *Gen, letters string, p float64) []string {
	o := []string{}
	for _, l := range letters {
		if g.chance(p) {
			o = append(o, string(l))
		}
	}
	return o
}

func inputAlphabet(c GenCfg) []int {
	a := append([]int{}, c.Letters...)
	a = append(a, 'z', '1', '\n', ' ')
	return a
}

func init() {
	commands["record-find"] = func(args []string) int {
		fs := flag.NewFlagSet("record-find", flag.ExitOnError)
		n := fs.Int("n", 1000, "patterns")
		ni := fs.Int("inputs", 8, "inputs per pattern")
		maxLen := fs.Int("maxlen", 12, "max input length")
		rtl := fs.String("rtl", "no", "no|yes|both")
		out := fs.String("o", "-", "output file")
		optLetters := fs.String("opts", "imsnx", "option letters to draw compile options from")
		re2p := fs.Float64("re2", 0.15, "probability of the RE2 dialect")
		stream := fs.Uint64("stream", 1, "PRNG stream")
		depth := fs.Int("depth", 4, "AST depth")
		maxCost := fs.Duration("maxcost", 60*time.Microsecond, "drop inputs on which one search costs the engine more than this")
		spelling := fs.Bool("spelling", false, "C18: move the drawn options into a leading (?O) or a wrapping (?O:..) and compile without them")
		nullable := fs.Bool("nullable", false, "allow nullable / nested quantifier operands (outside the C01 fragment)")
		caseFile := fs.String("case", "", "replay: JSON file {p,o,dia,rtl,s} - record exactly this case")
		fs.Parse(args)

		w := bufio.NewWriterSize(os.Stdout, 1<<20)
		if *out != "-" {
			f, err := os.Create(*out)
			if err != nil {
				fmt.Fprintln(os.Stderr, err)
				return 2
			}
			defer f.Close()
			w = bufio.NewWriterSize(f, 1<<20)
		}
		defer w.Flush()
		enc := json.NewEncoder(w)
		enc.SetEscapeHTML(false)

		if *caseFile != "" {
			type oneCase struct {
				P   Pat      `json:"p"`
				O   []string `json:"o"`
				Dia string   `json:"dia"`
				RTL bool     `json:"rtl"`
				S   []int    `json:"s"`
			}
			var cs []oneCase
			data, err := os.ReadFile(*caseFile)
			if err == nil {
				if err = json.Unmarshal(data, &cs); err != nil {
					var one oneCase
					if err = json.Unmarshal(data, &one); err == nil {
						cs = []oneCase{one}
					}
				}
			}
			if err != nil {
				fmt.Fprintln(os.Stderr, err)
				return 2
			}
			for i, c := range cs {
				text := PrintPat(c.P, PrintOpts{X: has(c.O, "x"), RE2: c.Dia == "re2"})
				re, err := compile(text, optBits(c.O, c.Dia, c.RTL))
				if err != nil {
					fmt.Fprintln(os.Stderr, "compile error:", err)
					return 2
				}
				rec := FindRec{ID: i + 1, P: c.P, O: c.O, Dia: c.Dia, RTL: c.RTL, Text: text, Cases: []FindCase{}}
				fc := FindCase{S: c.S, Res: []Res{}}
				if fc.S == nil {
					fc.S = []int{}
				}
				for st := 0; st <= len(c.S); st++ {
					fc.Res = append(fc.Res, findRunesAt(re, intsToRunes(c.S), st))
				}
				rec.Cases = append(rec.Cases, fc)
				enc.Encode(rec)
			}
			return 0
		}

		cfg := cfgC01()
		cfg.MaxDepth = *depth
		cfg.Nullable = *nullable
		cfg.NestedRep = *nullable
		g := &Gen{r: newRand(seedFromEnv(), *stream), c: cfg}
		alpha := inputAlphabet(cfg)
		compileErrs, cases, skipped := 0, 0, 0
		for id := 1; id <= *n; id++ {
			o := randOpts(g, *optLetters, 0.2)
			g.N = has(o, "n")
			t := g.Pattern()
			dia := "net"
			if g.chance(*re2p) {
				dia = "re2"
			}
			isRTL := *rtl == "yes" || (*rtl == "both" && g.chance(0.5))
			g.resolveRefs(t, has(o, "n"))
			if *spelling && len(o) > 0 {
				switch g.pick(5) {
				case 3:
					// an option item inside a group: it holds for the rest of that group
					t = Opt("", "", T("cat", OptSet(strings.Join(o, ""), ""), t))
				case 4:
					// ... and no further: what follows the group runs without the options
					t = T("cat", Opt("", "", T("cat", OptSet(strings.Join(o, ""), ""), t)), Grp("", Lit('a')))
				case 0:
					t = T("cat", OptSet(strings.Join(o, ""), ""), t)
				case 1:
					t = Opt(strings.Join(o, ""), "", t)
				default:
					// options on for the whole pattern, switched off again inside a group that follows
					t = T("cat", OptSet(strings.Join(o, ""), ""), t, Opt("", strings.Join(o, ""), Lit('a')))
				}
				o = []string{}
			}
			p := Flatten(t)
			text := PrintPat(p, PrintOpts{X: has(o, "x"), RE2: dia == "re2", XNoise: g.pick(3)})
			re, err := compile(text, optBits(o, dia, isRTL))
			if err != nil {
				compileErrs++
				fmt.Fprintf(os.Stderr, "compile error: %q %v: %v\n", text, o, err)
				continue
			}
			rec := FindRec{ID: id, P: p, O: o, Dia: dia, RTL: isRTL, Text: text, Cases: []FindCase{}}
			probe := newSpecProbe(text, optBits(o, dia, isRTL))
			for _, s := range g.Inputs(t, *ni, *maxLen, alpha) {
				in := intsToRunes(s)
				c := FindCase{S: s, Res: make([]Res, 0, len(s)+1)}
				heavy := probe.heavy(in, isRTL)
				if heavy {
					skipped++
					continue
				}
				for st := 0; st <= len(in); st++ {
					c.Res = append(c.Res, findRunesAt(re, in, st))
					// cost guard: the specification is evaluated by TLC, about three orders of magnitude
					// slower than the engine; searches that backtrack heavily are left to the relational checks
					if cheapest(func() { findRunesAt(re, in, st) }) > *maxCost {
						heavy = true
						break
					}
				}
				if heavy {
					skipped++
					continue
				}
				cases += len(c.Res)
				rec.Cases = append(rec.Cases, c)
			}
			if err := enc.Encode(rec); err != nil {
				fmt.Fprintln(os.Stderr, err)
				return 2
			}
		}
		fmt.Fprintf(os.Stderr, "record-find: patterns=%d compile_errors=%d cases=%d heavy_inputs_skipped=%d\n", *n, compileErrs, cases, skipped)
		if compileErrs*20 > *n {
			fmt.Fprintln(os.Stderr, "record-find: too many generated patterns failed to compile (generator/printer drift)")
			return 2
		}
		return 0
	}
}

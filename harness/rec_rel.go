package main

// record-rel: direction B for C03 / C05 (and the black-box leg of C13).  The same pattern is run in
// two configurations - A: as shipped, B: a variant (naive scan with all search acceleration off;
// tree rewrites gated off; code-gen analysis on) - for every input and start offset; for A the
// candidate searches (from, to, found) are logged through the VerifOnFind hook.  TLC
// (spec/Obs_Rel.tla) checks A = B, A = specification inside the fragment, and that every position
// a candidate search jumped over is dead.

import (
	"bufio"
	"encoding/json"
	"flag"
	"fmt"
	"os"
	"strings"
	"time"

	regexp2 "github.com/dlclark/regexp2/v2"
	"github.com/dlclark/regexp2/v2/syntax"
)

type RelCase struct {
	S     []int    `json:"s"`
	A     []Res    `json:"a"`
	B     []Res    `json:"b"`
	Str   []Res    `json:"str"`   // as shipped through the STRING entry point (FindStringMatchStartingAt at the rune's byte offset)
	MS    int      `json:"ms"`    // MatchString: 1 true, 0 false, -1 error
	Skips [][4]int `json:"skips"` // [scan start, from, to, found]
}

type RelRec struct {
	ID      int       `json:"id"`
	P       Pat       `json:"p"`
	O       []string  `json:"o"`
	Dia     string    `json:"dia"`
	RTL     bool      `json:"rtl"`
	Text    string    `json:"text"`
	Exact   bool      `json:"exact"`
	Variant string    `json:"variant"`
	Mode    string    `json:"mode"` // FindNextStartingPositionMode of A
	HasG    bool      `json:"hasg"` // the pattern text contains \G (its origin moves with the start offset)
	Cases   []RelCase `json:"cases"`
}

var allRewriteGates = []string{"no-auto-atomic", "no-ending-backtracking-elimination", "no-bumpalong", "no-prefix-factoring", "no-atomic-alternation-rewrites"}

// compileVariant compiles text in configuration B
func compileVariant(variant, text string, opts regexp2.RegexOptions, base *regexp2.Regexp) (*regexp2.Regexp, error) {
	switch variant {
	case "naive":
		return regexp2.VerifNaive(base), nil
	case "norewrite":
		for _, g := range allRewriteGates {
			syntax.VerifSetGate(g, true)
		}
		defer func() {
			for _, g := range allRewriteGates {
				syntax.VerifSetGate(g, false)
			}
		}()
		re, err := compile(text, opts)
		if err != nil {
			return nil, err
		}
		return regexp2.VerifNaive(re), nil
	case "codegen":
		return compile(text, opts, regexp2.OptionIsCodeGen())
	case "nobitmap":
		return compile(text, opts, regexp2.OptionDisableCharClassASCIIBitmap())
	}
	return nil, fmt.Errorf("unknown variant %s", variant)
}

func findMode(re *regexp2.Regexp) string {
	c := regexp2.VerifCode(re)
	if c == nil || c.FindOptimizations == nil {
		return "none"
	}
	m := fmt.Sprint(c.FindOptimizations.FindMode)
	if c.BmPrefix != nil {
		m += "+bm"
	}
	if c.FcPrefix != nil {
		m += "+fc"
	}
	if c.Anchors != 0 {
		m += "+anchors"
	}
	return m
}

func relCase(reA, reB *regexp2.Regexp, s []int) RelCase {
	in := intsToRunes(s)
	c := RelCase{S: s, A: []Res{}, B: []Res{}, Str: []Res{}, Skips: [][4]int{}}
	str := string(in)
	offs := byteOffsetsOf(str)
	if ok, err := reA.MatchString(str); err != nil {
		c.MS = -1
	} else if ok {
		c.MS = 1
	}
	if c.S == nil {
		c.S = []int{}
	}
	for st := 0; st <= len(in); st++ {
		cur := st
		regexp2.SetVerifOnFind(func(r *regexp2.Runner, from, to int, found bool) {
			if r.VerifRegexp() != reA || len(c.Skips) > 400 {
				return
			}
			f := 0
			if found {
				f = 1
			}
			c.Skips = append(c.Skips, [4]int{cur, from, to, f})
		})
		c.A = append(c.A, findRunesAt(reA, in, st))
		regexp2.SetVerifOnFind(nil)
		c.B = append(c.B, findRunesAt(reB, in, st))
		var sr Res
		if err := safely(func() error {
			m, e := reA.FindStringMatchStartingAt(str, offs[st])
			if e != nil {
				return e
			}
			sr = matchRes(reA, m)
			return nil
		}); err != nil {
			sr = Res{Caps: [][][2]int{}, Err: err.Error()}
		}
		c.Str = append(c.Str, sr)
	}
	return c
}

// accelPattern builds patterns of the shapes the candidate searches recognise
func (g *Gen) accelPattern() *Tree {
	lit := func(n int) *Tree {
		if g.chance(0.35) {
			// self-overlapping literals: an occurrence can start inside another one
			w := []string{"aa", "aaa", "aba", "abab", "abaab", "aab"}[g.pick(6)]
			var ks []*Tree
			for _, c := range w {
				ks = append(ks, Lit(int(c)))
			}
			return T("cat", ks...)
		}
		var ks []*Tree
		for i := 0; i < n; i++ {
			ks = append(ks, Lit(g.c.Letters[g.pick(min(4, len(g.c.Letters)))]))
		}
		if n == 1 {
			return ks[0]
		}
		return T("cat", ks...)
	}
	set := func() *Tree { return Class(false, [2]int{'a', 'b'}) }
	body := func() *Tree { g.bud = 4; return g.seq(2, 2) }
	switch g.pick(20) {
	case 12, 13: // an iterated body: letter, loop, nullable loop - what follows a loop is the body's own start on the next iteration
		ab := func() *Tree {
			if g.chance(0.3) {
				return Class(false, [2]int{'a', 'a'}, [2]int{'b', 'b'})
			}
			return Lit([]int{'a', 'b'}[g.pick(2)])
		}
		inner := T("cat", ab(), Rep(ab(), g.pick(2), -1, g.chance(0.2)), Rep(Lit([]int{'a', 'b', 'c'}[g.pick(3)]), 0, []int{1, -1}[g.pick(2)], g.chance(0.2)))
		var loop *Tree
		switch g.pick(3) {
		case 0:
			mn := 2 + g.pick(2)
			loop = Rep(inner, mn, mn+g.pick(3), g.chance(0.3))
		case 1:
			loop = Rep(Grp("", inner), 1+g.pick(2), -1, g.chance(0.3))
		default:
			loop = Rep(inner, 2, 2, false)
		}
		return T("cat", loop, Lit([]int{'a', 'b', 'c'}[g.pick(3)]))
	case 18, 19: // a single-character loop with a fixed count beyond the fixed-set expansion cut-off (20), then something selective
		n := 19 + g.pick(6)
		var unit *Tree = set()
		if g.chance(0.3) {
			unit = Lit(g.c.Letters[g.pick(min(3, len(g.c.Letters)))])
		}
		kids := []*Tree{Rep(unit, n, n, false), Lit('c')}
		if g.chance(0.3) {
			kids = append([]*Tree{set()}, kids...)
		}
		return T("cat", kids...)
	case 16, 17: // a leading group repeated a fixed number of times beyond the analyzers' expansion cut-offs, then literal text
		n := 4 + g.pick(3)
		var unit *Tree
		switch g.pick(3) {
		case 0:
			unit = lit(2)
		case 1:
			unit = Grp("", lit(2))
		default:
			unit = T("cat", lit(1), set())
		}
		loop := Rep(unit, n, n+[]int{0, 0, 1}[g.pick(3)], false)
		return T("cat", loop, lit(1+g.pick(2)))
	case 14, 15: // alternation whose branches put sets of different kinds (mergeable or not) at the same fixed offsets
		item := func() *Tree {
			switch g.pick(7) {
			case 0:
				return Class(true, [2]int{'a', 'a'}, [2]int{'b', 'b'}) // negated, two members: not a Notone
			case 1:
				return Class(true, [2]int{'a', 'a'})
			case 2:
				return Class(false, [2]int{'a', 'b'})
			case 3:
				return Sh([]string{"d", "w", "s", "W"}[g.pick(4)])
			case 4:
				return T("dot")
			default:
				return Lit([]int{'a', 'b', 'c'}[g.pick(3)])
			}
		}
		var branches []*Tree
		for i := 2 + g.pick(2); i > 0; i-- {
			ks := []*Tree{item()}
			for j := g.pick(3); j > 0; j-- {
				ks = append(ks, item())
			}
			if len(ks) == 1 {
				branches = append(branches, ks[0])
			} else {
				branches = append(branches, T("cat", ks...))
			}
		}
		kids := []*Tree{T("alt", branches...), lit(1 + g.pick(2))}
		if g.chance(0.3) {
			kids = append([]*Tree{lit(1)}, kids...)
		}
		return T("cat", kids...)
	case 0: // leading string
		return T("cat", lit(2+g.pick(3)), body())
	case 1: // leading strings (alternation of literals)
		return T("cat", T("alt", lit(2+g.pick(2)), lit(2+g.pick(2)), lit(1+g.pick(3))), body())
	case 2: // fixed-distance char / string after a fixed-width prefix
		return T("cat", T("dot"), set(), lit(1+g.pick(3)), body())
	case 3: // fixed-distance sets
		return T("cat", set(), Class(false, [2]int{'b', 'c'}), T("dot"), Class(false, [2]int{'a', 'a'}, [2]int{'c', 'c'}), body())
	case 4: // literal after a leading loop
		return T("cat", Rep(Class(false, [2]int{'a', 'b'}), g.pick(2), -1, g.chance(0.3)), lit(1+g.pick(3)), body())
	case 5: // landmark chain: set loop, landmarks
		return T("cat", Rep(Sh("w"), g.pick(2), -1, false), Rep(Sh("s"), 0, -1, false), Lit('='), Rep(Sh("s"), 0, -1, false), Rep(Sh("d"), 1, 2+g.pick(2), g.chance(0.3)), lit(1))
	case 6: // trailing anchor with fixed length
		return T("cat", lit(1+g.pick(3)), set(), T([]string{"z", "Z", "dollar"}[g.pick(3)]))
	case 7: // leading anchors
		return T("cat", T([]string{"A", "caret", "G", "b"}[g.pick(4)]), body(), lit(1))
	case 8: // first-char set from an alternation, incl. negated / astral
		return T("cat", T("alt", Class(true, [2]int{0x1F600, 0x1F600}), T("cat", Sh("d"), Sh("d"))), lit(1))
	case 9: // min-length heavy
		return T("cat", Rep(T("dot"), 2+g.pick(3), 2+g.pick(3)+3, false), lit(2))
	case 10: // optional prefix then literal (nullable lead)
		return T("cat", Rep(lit(1), 0, 1, false), lit(2), body())
	default:
		return T("cat", Rep(T("dot"), 0, -1, g.chance(0.5)), lit(2+g.pick(2)), body())
	}
}

func init() {
	commands["record-rel"] = func(args []string) int {
		fs := flag.NewFlagSet("record-rel", flag.ExitOnError)
		n := fs.Int("n", 500, "patterns")
		ni := fs.Int("inputs", 6, "inputs per pattern")
		maxLen := fs.Int("maxlen", 12, "max input length")
		rtl := fs.String("rtl", "no", "no|yes|both")
		out := fs.String("o", "-", "output file")
		stream := fs.Uint64("stream", 1, "PRNG stream")
		variant := fs.String("variant", "naive", "naive|norewrite|codegen|nobitmap")
		profile := fs.String("profile", "fragment", "fragment|wide|accel")
		caseFile := fs.String("case", "", "replay: JSON list of {p,o,dia,rtl,exact,variant,s} (p empty: text is the pattern)")
		harvest := fs.String("harvest", "", "profile harvest: repository root whose *_test.go string literals are the patterns")
		hstride := fs.Int("hstride", 1, "profile harvest: take every hstride-th literal (long pattern-like ones are always taken) ...")
		hoffset := fs.Int("hoffset", 0, "... starting at this one")
		fs.Parse(args)

		w := bufio.NewWriterSize(os.Stdout, 1<<20)
		if *out != "-" {
			f, err := os.Create(*out)
			if err != nil {
				fmt.Fprintln(os.Stderr, err)
				return 2
			}
			defer f.Close()
			w = bufio.NewWriterSize(f, 1<<20)
		}
		defer w.Flush()
		enc := json.NewEncoder(w)
		enc.SetEscapeHTML(false)

		if *caseFile != "" {
			var cs []struct {
				P       Pat      `json:"p"`
				O       []string `json:"o"`
				Dia     string   `json:"dia"`
				RTL     bool     `json:"rtl"`
				Exact   bool     `json:"exact"`
				Variant string   `json:"variant"`
				S       []int    `json:"s"`
				Text    string   `json:"text"`
			}
			data, err := os.ReadFile(*caseFile)
			if err == nil {
				err = json.Unmarshal(data, &cs)
			}
			if err != nil {
				fmt.Fprintln(os.Stderr, err)
				return 2
			}
			for i, c := range cs {
				text := c.Text
				if len(c.P) > 0 {
					text = PrintPat(c.P, PrintOpts{X: has(c.O, "x"), RE2: c.Dia == "re2"})
				}
				if c.P == nil {
					c.P = Pat{}
				}
				reA, err := compile(text, optBits(c.O, c.Dia, c.RTL))
				if err != nil {
					fmt.Fprintln(os.Stderr, "compile error:", err)
					return 2
				}
				reB, err := compileVariant(c.Variant, text, optBits(c.O, c.Dia, c.RTL), reA)
				if err != nil {
					fmt.Fprintln(os.Stderr, "compile error (variant):", err)
					return 2
				}
				rec := RelRec{ID: i + 1, P: c.P, O: c.O, Dia: c.Dia, RTL: c.RTL, Text: text, Exact: c.Exact, Variant: c.Variant, Mode: findMode(reA), HasG: strings.Contains(text, `\G`), Cases: []RelCase{relCase(reA, reB, c.S)}}
				enc.Encode(rec)
			}
			return 0
		}

		if *profile == "harvest" {
			// patterns harvested from the repository's own tests: relational only (there is no source tree for them)
			g := &Gen{r: newRand(seedFromEnv(), *stream), c: cfgC01()}
			lits := harvestLiterals(*harvest)
			compileErrs, cases, skipped, taken := 0, 0, 0, 0
			modes := map[string]int{}
			for i, l := range lits {
				always := len(l) >= 25 && (strings.Contains(l, "\\") || strings.Contains(l, "(?") || strings.Contains(l, "["))
				if !always && i%*hstride != *hoffset%*hstride {
					continue
				}
				dia := "net"
				isRTL := *rtl == "yes" || (*rtl == "both" && g.chance(0.3))
				reA, err := compile(l, optBits(nil, dia, isRTL))
				if err != nil {
					dia = "re2"
					if reA, err = compile(l, optBits(nil, dia, isRTL)); err != nil {
						compileErrs++
						continue
					}
				}
				reB, err := compileVariant(*variant, l, optBits(nil, dia, isRTL), reA)
				if err != nil {
					compileErrs++
					continue
				}
				// catastrophic patterns of the timeout tests: bounded by a short timeout, then dropped by the cost guard
				reA.MatchTimeout, reB.MatchTimeout = 4*time.Millisecond, 4*time.Millisecond
				taken++
				rec := RelRec{ID: taken, P: Pat{}, O: []string{}, Dia: dia, RTL: isRTL, Text: l, Exact: false, Variant: *variant, Mode: findMode(reA), HasG: strings.Contains(l, `\G`), Cases: []RelCase{}}
				modes[rec.Mode]++
				inputs := derivedInputs(l)
				for d := 1; d <= 3; d++ {
					if i+d < len(lits) && len(lits[i+d]) <= 60 {
						inputs = append(inputs, lits[i+d])
					}
				}
				for _, in := range inputs {
					rs := []rune(in)
					if len(rs) > 40 {
						continue
					}
					if cheapest(func() { reB.FindRunesMatch(rs) }) > 60_000 {
						skipped++
						continue
					}
					rec.Cases = append(rec.Cases, relCase(reA, reB, runesToInts(rs)))
					cases += len(rs) + 1
				}
				if err := enc.Encode(rec); err != nil {
					fmt.Fprintln(os.Stderr, err)
					return 2
				}
			}
			ms, _ := json.Marshal(modes)
			fmt.Fprintf(os.Stderr, "record-rel: variant=%s harvested=%d not-a-pattern=%d cases=%d heavy_inputs_skipped=%d modes=%s\n", *variant, taken, compileErrs, cases, skipped, ms)
			if taken == 0 {
				return 2
			}
			return 0
		}

		cfg := cfgC01()
		exact := true
		switch *profile {
		case "wide":
			cfg.Nullable, cfg.NestedRep, cfg.G, cfg.Balancing = true, true, true, true
			exact = false
		case "accel":
			cfg.G = true
		}
		g := &Gen{r: newRand(seedFromEnv(), *stream), c: cfg}
		alpha := inputAlphabet(cfg)
		alpha = append(alpha, '=', '7', 0x1F601, 0x10FFFF)
		compileErrs, cases, skipped := 0, 0, 0
		modes := map[string]int{}
		for id := 1; id <= *n; id++ {
			o := randOpts(g, "imsn", 0.15)
			g.N = has(o, "n")
			var t *Tree
			if *profile == "accel" && g.chance(0.8) {
				g.ng, g.nms = 0, nil
				t = g.accelPattern()
			} else {
				t = g.Pattern()
			}
			dia := "net"
			isRTL := *rtl == "yes" || (*rtl == "both" && g.chance(0.5))
			g.resolveRefs(t, has(o, "n"))
			p := Flatten(t)
			text := PrintPat(p, PrintOpts{RE2: false})
			reA, err := compile(text, optBits(o, dia, isRTL))
			if err != nil {
				compileErrs++
				fmt.Fprintf(os.Stderr, "compile error: %q %v: %v\n", text, o, err)
				continue
			}
			reB, err := compileVariant(*variant, text, optBits(o, dia, isRTL), reA)
			if err != nil {
				compileErrs++
				fmt.Fprintf(os.Stderr, "compile error (variant): %q %v: %v\n", text, o, err)
				continue
			}
			rec := RelRec{ID: id, P: p, O: o, Dia: dia, RTL: isRTL, Text: text, Exact: exact && !(*profile == "accel" && strings.Contains(text, `\G`) && false), Variant: *variant, Mode: findMode(reA), HasG: strings.Contains(text, `\G`), Cases: []RelCase{}}
			modes[rec.Mode]++
			// every start offset is searched twice below, and inside the fragment once more by TLC: the probe looks at all of them
			probe := newSpecProbe(text, optBits(o, dia, isRTL))
			for _, s := range g.Inputs(t, *ni, *maxLen, alpha) {
				in := intsToRunes(s)
				if cheapest(func() { reB.FindRunesMatch(in) }) > 60_000 || probe.heavy(in, isRTL) {
					skipped++
					continue
				}
				rec.Cases = append(rec.Cases, relCase(reA, reB, s))
				cases += len(s) + 1
			}
			if err := enc.Encode(rec); err != nil {
				fmt.Fprintln(os.Stderr, err)
				return 2
			}
		}
		ms, _ := json.Marshal(modes)
		fmt.Fprintf(os.Stderr, "record-rel: variant=%s patterns=%d compile_errors=%d cases=%d heavy_inputs_skipped=%d modes=%s\n", *variant, *n, compileErrs, cases, skipped, ms)
		if compileErrs*10 > *n {
			return 2
		}
		return 0
	}
}

package main

// record-stack: direction B for C13.  One pattern and input is run under many backtracking stack
// limits L (fresh Regexp per limit).  Recorded per run: the outcome, the result, the largest stack
// capacity seen, every growth step (hook VerifOnGrow: depth in use, old capacity, new capacity), the
// initial capacity, and the outcome of running the same call again on the same Regexp.

import (
	"bufio"
	"encoding/json"
	"errors"
	"flag"
	"fmt"
	"os"
	"strings"
	"time"

	regexp2 "github.com/dlclark/regexp2/v2"
)

type StackRun struct {
	Lim     int      `json:"lim"`
	Outcome string   `json:"outcome"` // match | nomatch | limit | panic | error
	Msg     string   `json:"msg"`
	Res     Res      `json:"res"`
	Init    int      `json:"init"`
	MaxCap  int      `json:"maxcap"`
	Events  [][3]int `json:"events"` // [depth, oldcap, newcap]
	Again   string   `json:"again"`
	AgainOK bool     `json:"againok"` // the second call on the same Regexp returned the same result
	Other   bool     `json:"other"`   // after that, a trivial different call on the same Regexp gave the right answer
}

type StackRec struct {
	ID   int        `json:"id"`
	Text string     `json:"text"`
	O    []string   `json:"o"`
	RTL  bool       `json:"rtl"`
	TC   int        `json:"tc"`
	S    []int      `json:"s"`
	Unl  Res        `json:"unl"`
	Runs []StackRun `json:"runs"`
}

func outcomeOf(re *regexp2.Regexp, in []rune) (string, string, Res) {
	var m *regexp2.Match
	err := safely(func() (e error) { m, e = re.FindRunesMatch(in); return })
	switch {
	case err == nil && m != nil:
		return "match", "", matchRes(re, m)
	case err == nil:
		return "nomatch", "", Res{Caps: [][][2]int{}}
	case errors.Is(err, regexp2.ErrBacktrackingStackLimit):
		return "limit", err.Error(), Res{Caps: [][][2]int{}}
	case strings.HasPrefix(err.Error(), "PANIC"):
		return "panic", err.Error(), Res{Caps: [][][2]int{}}
	}
	return "error", err.Error(), Res{Caps: [][][2]int{}}
}

func stackLimits(tc int) []int {
	ls := []int{}
	for l := 0; l <= 64; l++ {
		ls = append(ls, l)
	}
	ls = append(ls, 100, 127, 128, 129, 255, 256, 257, 353, 511, 512, 513, 1000, 1023, 1024, 1025, 4096, 100000, -1)
	for _, d := range []int{-1, 0, 1} {
		for _, m := range []int{4, 8, 12, 16} {
			if v := m*tc + d; v > 64 {
				ls = append(ls, v)
			}
		}
	}
	return ls
}

func stressPattern(g *Gen) string {
	letters := "abcdefghijklmnop"
	switch g.pick(5) {
	case 0: // many lazy loops inside nested lazy/greedy loops
		n := 4 + g.pick(13)
		var sb strings.Builder
		sb.WriteString("(?:(?:")
		for i := 0; i < n; i++ {
			sb.WriteByte(letters[i])
			sb.WriteString("*?")
		}
		sb.WriteString("x)+?)+y")
		return sb.String()
	case 1: // alternations inside a counted loop
		n := 2 + g.pick(6)
		alts := []string{}
		for i := 0; i < n; i++ {
			alts = append(alts, string(letters[i])+"?x")
		}
		return "(?:" + strings.Join(alts, "|") + fmt.Sprintf("){1,%d}y", 3+g.pick(20))
	case 2: // captures in loops with look-arounds
		return fmt.Sprintf("(?:(x)(?=x*y)|(x)(?!z)){%d,}?y", g.pick(4))
	case 3: // nested counted loops
		return fmt.Sprintf("(?:(?:x{1,%d}){1,%d}){1,%d}y", 1+g.pick(4), 1+g.pick(4), 1+g.pick(4))
	default:
		return "(?:x|x|(?:a|b|c|x)?x)*?y"
	}
}

func init() {
	commands["record-stack"] = func(args []string) int {
		fs := flag.NewFlagSet("record-stack", flag.ExitOnError)
		n := fs.Int("n", 100, "patterns")
		out := fs.String("o", "-", "output file")
		stream := fs.Uint64("stream", 1, "PRNG stream")
		rtl := fs.String("rtl", "no", "no|both")
		fs.Parse(args)
		w := bufio.NewWriterSize(os.Stdout, 1<<20)
		if *out != "-" {
			f, err := os.Create(*out)
			if err != nil {
				fmt.Fprintln(os.Stderr, err)
				return 2
			}
			defer f.Close()
			w = bufio.NewWriterSize(f, 1<<20)
		}
		defer w.Flush()
		enc := json.NewEncoder(w)
		enc.SetEscapeHTML(false)

		cfg := cfgC01()
		cfg.MaxDepth, cfg.MaxNodes, cfg.MaxRepBound = 5, 18, 4
		g := &Gen{r: newRand(seedFromEnv(), *stream), c: cfg}
		alpha := inputAlphabet(cfg)
		recs, runs := 0, 0
		for id := 1; id <= *n; id++ {
			var text string
			var inputs [][]int
			var o []string
			isRTL := false
			if g.chance(0.45) {
				text = stressPattern(g)
				for _, k := range []int{3, 8, 20, 40} {
					s := []int{}
					for i := 0; i < k; i++ {
						s = append(s, 'x')
					}
					inputs = append(inputs, append(append([]int{}, s...), 'y'), s)
				}
			} else {
				o = randOpts(g, "imsn", 0.1)
				g.N = has(o, "n")
				t := g.Pattern()
				g.resolveRefs(t, has(o, "n"))
				text = PrintPat(Flatten(t), PrintOpts{})
				inputs = g.Inputs(t, 3, 14, alpha)
				isRTL = *rtl == "both" && g.chance(0.3)
			}
			if o == nil {
				o = []string{}
			}
			unlRe, err := compile(text, optBits(o, "net", isRTL), regexp2.OptionMaxBacktrackingStackSize(-1))
			if err != nil {
				continue
			}
			unlRe.MatchTimeout = 20 * time.Millisecond
			tc := regexp2.VerifCode(unlRe).TrackCount
			for _, s := range inputs {
				in := intsToRunes(s)
				if cheapest(func() { unlRe.FindRunesMatch(in) }) > 1_000_000 {
					continue
				}
				_, _, unl := outcomeOf(unlRe, in)
				rec := StackRec{ID: recs + 1, Text: text, O: o, RTL: isRTL, TC: tc, S: s, Unl: unl, Runs: []StackRun{}}
				if rec.S == nil {
					rec.S = []int{}
				}
				for _, L := range stackLimits(tc) {
					re, err := compile(text, optBits(o, "net", isRTL), regexp2.OptionMaxBacktrackingStackSize(L))
					if err != nil {
						continue
					}
					re.MatchTimeout = time.Second
					run := StackRun{Lim: L, Events: [][3]int{}, Init: -1}
					regexp2.SetVerifOnScanStart(func(r *regexp2.Runner) {
						if r.VerifRegexp() == re && run.Init < 0 {
							run.Init = r.VerifState().TrackCap
						}
					})
					regexp2.SetVerifOnGrow(func(r *regexp2.Runner, oldCap, newCap int) {
						if r.VerifRegexp() == re && len(run.Events) < 64 {
							run.Events = append(run.Events, [3]int{r.VerifState().TrackDepth, oldCap, newCap})
						}
					})
					regexp2.SetVerifOnPoint(func(point string, obj any, a, b int) {
						if point == "putRunner" {
							if r, ok := obj.(*regexp2.Runner); ok && r.VerifRegexp() == re && a > run.MaxCap {
								run.MaxCap = a
							}
						}
					})
					run.Outcome, run.Msg, run.Res = outcomeOf(re, in)
					regexp2.SetVerifOnScanStart(nil)
					regexp2.SetVerifOnGrow(nil)
					var again Res
					run.Again, _, again = outcomeOf(re, in)
					run.AgainOK = run.Again == run.Outcome && fmt.Sprint(again) == fmt.Sprint(run.Res)
					// the Regexp stays usable: a call that needs no backtracking gives the right answer
					if L != 0 {
						o2, _, _ := outcomeOf(re, []rune{})
						want, _, _ := outcomeOf(unlRe, []rune{})
						run.Other = o2 == want || o2 == "limit"
					} else {
						run.Other = true
					}
					regexp2.SetVerifOnPoint(nil)
					rec.Runs = append(rec.Runs, run)
					runs++
				}
				recs++
				enc.Encode(rec)
			}
		}
		fmt.Fprintf(os.Stderr, "record-stack: records=%d runs=%d\n", recs, runs)
		return 0
	}
}

package main

// record-tree: C05 (a).  Exports the RegexTree the real parser builds for a pattern, once as shipped
// and once with the rewrite gates on, in the implementation's own node vocabulary (spec/TreeIR.tla
// gives it meaning).  Sets are exported as their members among the test alphabet.

import (
	"bufio"
	"encoding/json"
	"flag"
	"fmt"
	"math"
	"os"
	"time"

	"github.com/dlclark/regexp2/v2/syntax"
)

type IRNode struct {
	T    string `json:"t"`
	Ch   int    `json:"ch"`
	Str  []int  `json:"str"`
	Set  []int  `json:"set"`
	M    int    `json:"m"`
	N    int    `json:"n"`
	IC   bool   `json:"ic"`
	RTL  bool   `json:"rtl"`
	Kids []int  `json:"kids"`
}

type TreeRec struct {
	ID     int      `json:"id"`
	P      Pat      `json:"p"`
	O      []string `json:"o"`
	Dia    string   `json:"dia"`
	RTL    bool     `json:"rtl"`
	Text   string   `json:"text"`
	Exact  bool     `json:"exact"`
	Alpha  []int    `json:"alpha"`
	MaxLen int      `json:"maxlen"`
	On     []IRNode `json:"on"`
	Off    []IRNode `json:"off"`
	OnDump string   `json:"ondump"`
}

var ntNames = map[syntax.NodeType]string{
	syntax.NtOneloop: "Oneloop", syntax.NtNotoneloop: "Notoneloop", syntax.NtSetloop: "Setloop", syntax.NtOnelazy: "Onelazy", syntax.NtNotonelazy: "Notonelazy",
	syntax.NtSetlazy: "Setlazy", syntax.NtOne: "One", syntax.NtNotone: "Notone", syntax.NtSet: "Set", syntax.NtMulti: "Multi", syntax.NtRef: "Ref", syntax.NtBol: "Bol",
	syntax.NtEol: "Eol", syntax.NtBoundary: "Boundary", syntax.NtNonboundary: "Nonboundary", syntax.NtBeginning: "Beginning", syntax.NtStart: "Start", syntax.NtEndZ: "EndZ",
	syntax.NtEnd: "End", syntax.NtNothing: "Nothing", syntax.NtEmpty: "Empty", syntax.NtAlternate: "Alternate", syntax.NtConcatenate: "Concatenate", syntax.NtLoop: "Loop",
	syntax.NtLazyloop: "Lazyloop", syntax.NtCapture: "Capture", syntax.NtGroup: "Group", syntax.NtPosLook: "PosLook", syntax.NtNegLook: "NegLook", syntax.NtAtomic: "Atomic",
	syntax.NtBackRefCond: "BackRefCond", syntax.NtExprCond: "ExprCond", syntax.NtECMABoundary: "ECMABoundary", syntax.NtNonECMABoundary: "NonECMABoundary",
	syntax.NtOneloopatomic: "Oneloopatomic", syntax.NtNotoneloopatomic: "Notoneloopatomic", syntax.NtSetloopatomic: "Setloopatomic", syntax.NtUpdateBumpalong: "UpdateBumpalong",
}

func exportTree(root *syntax.RegexNode, alpha []int) ([]IRNode, error) {
	var out []IRNode
	var rec func(n *syntax.RegexNode) (int, error)
	rec = func(n *syntax.RegexNode) (int, error) {
		name, ok := ntNames[n.T]
		if !ok {
			return 0, fmt.Errorf("unknown node type %d", n.T)
		}
		ir := IRNode{T: name, Ch: int(n.Ch), Str: runesToInts(n.Str), Set: []int{}, M: n.M, N: n.N, Kids: []int{},
			IC: n.Options&syntax.IgnoreCase != 0, RTL: n.Options&syntax.RightToLeft != 0}
		if ir.Str == nil {
			ir.Str = []int{}
		}
		if n.N == math.MaxInt32 {
			ir.N = -1
		}
		if n.Set != nil {
			ir.Set = members(n.Set, alpha)
		}
		out = append(out, ir)
		id := len(out)
		for _, k := range n.Children {
			kid, err := rec(k)
			if err != nil {
				return 0, err
			}
			out[id-1].Kids = append(out[id-1].Kids, kid)
		}
		return id, nil
	}
	_, err := rec(root)
	return out, err
}

func init() {
	commands["record-tree"] = func(args []string) int {
		fs := flag.NewFlagSet("record-tree", flag.ExitOnError)
		n := fs.Int("n", 300, "patterns")
		maxLen := fs.Int("maxlen", 4, "exhaustive input length bound")
		rtl := fs.String("rtl", "no", "no|yes|both")
		out := fs.String("o", "-", "output file")
		stream := fs.Uint64("stream", 1, "PRNG stream")
		profile := fs.String("profile", "fragment", "fragment|wide|accel")
		fs.Parse(args)
		w := bufio.NewWriterSize(os.Stdout, 1<<20)
		if *out != "-" {
			f, err := os.Create(*out)
			if err != nil {
				fmt.Fprintln(os.Stderr, err)
				return 2
			}
			defer f.Close()
			w = bufio.NewWriterSize(f, 1<<20)
		}
		defer w.Flush()
		enc := json.NewEncoder(w)
		enc.SetEscapeHTML(false)
		cfg := cfgC01()
		cfg.Letters = []int{'a', 'b', 'c', 'A', '\n', ' ', '1'}
		cfg.MaxNodes = 7
		exact := true
		if *profile == "wide" {
			cfg.Nullable, cfg.NestedRep, cfg.G = true, true, true
			exact = false
		}
		g := &Gen{r: newRand(seedFromEnv(), *stream), c: cfg}
		errs, changed, heavy := 0, 0, 0
		for id := 1; id <= *n; id++ {
			o := randOpts(g, "imsn", 0.15)
			g.N = has(o, "n")
			var t *Tree
			if *profile == "accel" && g.chance(0.7) {
				g.ng, g.nms = 0, nil
				t = g.accelPattern()
			} else {
				t = g.Pattern()
			}
			isRTL := *rtl == "yes" || (*rtl == "both" && g.chance(0.25))
			g.resolveRefs(t, has(o, "n"))
			p := Flatten(t)
			text := PrintPat(p, PrintOpts{})
			po := syntax.ParseOptions{RegexOptions: syntax.RegexOptions(optBits(o, "net", isRTL))}
			on, err := syntax.Parse(text, po)
			if err != nil {
				errs++
				continue
			}
			for _, gt := range allRewriteGates {
				syntax.VerifSetGate(gt, true)
			}
			off, err2 := syntax.Parse(text, po)
			for _, gt := range allRewriteGates {
				syntax.VerifSetGate(gt, false)
			}
			if err2 != nil {
				errs++
				continue
			}
			// alphabet: the pattern's letters first, then fillers, 4 symbols
			seen, a := map[int]bool{}, []int{}
			var walk func(t *Tree)
			walk = func(t *Tree) {
				if t.N.Op == "chr" {
					for _, r := range t.N.Rs {
						if !seen[r[0]] && r[0] < 0x10000 {
							seen[r[0]] = true
							a = append(a, r[0])
						}
					}
				}
				for _, k := range t.Kids {
					walk(k)
				}
			}
			walk(t)
			for _, c := range []int{'a', 'b', '\n', '1', ' ', 'A'} {
				if len(a) >= 3 {
					break
				}
				if !seen[c] {
					seen[c] = true
					a = append(a, c)
				}
			}
			if len(a) > 3 {
				a = a[:3]
			}
			ml := *maxLen
			// cost guard: the specification evaluates every string of the bounded language three times; patterns whose
			// worst search over that language is expensive for the real engine are left to the relational leg of C05
			if re, err := compile(text, optBits(o, "net", isRTL)); err == nil {
				worst := time.Duration(0)
				probe := []int{}
				for i := 0; i < ml; i++ {
					probe = append(probe, a[i%len(a)])
				}
				for _, c := range a {
					in := []rune{}
					for i := 0; i < ml; i++ {
						in = append(in, rune(c))
					}
					if d := cheapest(func() { re.FindRunesMatch(in) }); d > worst {
						worst = d
					}
				}
				if d := cheapest(func() { re.FindRunesMatch(intsToRunes(probe)) }); d > worst {
					worst = d
				}
				if worst > 25*time.Microsecond {
					heavy++
					continue
				}
			}
			ion, e1 := exportTree(on.Root, a)
			ioff, e2 := exportTree(off.Root, a)
			if e1 != nil || e2 != nil {
				fmt.Fprintln(os.Stderr, "export error", e1, e2)
				return 2
			}
			if on.Dump() != off.Dump() {
				changed++
			}
			enc.Encode(TreeRec{ID: id, P: p, O: o, Dia: "net", RTL: isRTL, Text: text, Exact: exact, Alpha: a, MaxLen: ml, On: ion, Off: ioff, OnDump: on.Dump()})
		}
		fmt.Fprintf(os.Stderr, "record-tree: patterns=%d parse_errors=%d rewritten=%d heavy_skipped=%d\n", *n, errs, changed, heavy)
		return 0
	}
}

package main

// class-vocab / replay-class: forward conformance for C16.  class-vocab writes the vocabulary (parts,
// subtractions, rune domain) that spec/Gen_Class.tla enumerates over; replay-class prints each predicted
// class with its parts in the given order, compiles it and compares the membership of every domain rune.

import (
	"bufio"
	"encoding/json"
	"flag"
	"fmt"
	"os"
	"runtime"
	"sort"
	"sync"

	regexp2 "github.com/dlclark/regexp2/v2"
)

type classPart struct {
	Text  string   `json:"text"`
	Rs    [][2]int `json:"rs"`
	Cats  []CatRef `json:"cats"`
	Shs   []string `json:"shs"`
	Posix []CatRef `json:"posix"`
	Dias  []string `json:"dias"`
}

var allDias = []string{"net", "re2", "ecma"}

func partR(text string, lo, hi int) classPart {
	return classPart{Text: text, Rs: [][2]int{{lo, hi}}, Cats: []CatRef{}, Shs: []string{}, Posix: []CatRef{}, Dias: allDias}
}
func partS(sh string) classPart {
	return classPart{Text: `\` + sh, Rs: [][2]int{}, Cats: []CatRef{}, Shs: []string{sh}, Posix: []CatRef{}, Dias: allDias}
}
func partC(n string, neg bool) classPart {
	t := `\p{` + n + `}`
	if neg {
		t = `\P{` + n + `}`
	}
	return classPart{Text: t, Rs: [][2]int{}, Cats: []CatRef{{n, neg}}, Shs: []string{}, Posix: []CatRef{}, Dias: []string{"net", "re2"}}
}
func partP(n string, neg bool) classPart {
	t := `[:` + n + `:]`
	if neg {
		t = `[:^` + n + `:]`
	}
	return classPart{Text: t, Rs: [][2]int{}, Cats: []CatRef{}, Shs: []string{}, Posix: []CatRef{{n, neg}}, Dias: []string{"re2"}}
}

// the parts: letters with unusual case orbits, the two blocks that leave exactly A-Z out, shorthands and
// complements, cased categories and complements, POSIX names
var classParts = []classPart{
	partR("a", 'a', 'a'), partR("A-Z", 'A', 'Z'), partR("k", 'k', 'k'), partR("s", 's', 's'),
	partR("\u0130", 0x130, 0x130), partR("\u212A", 0x212A, 0x212A), partR("\u03A3", 0x3A3, 0x3A3), partR("\u01C5", 0x1C5, 0x1C5),
	partR(`\x00-@`, 0, '@'), partR("\\[-\U0010FFFF", '[', 0x10FFFF),
	partS("w"), partS("W"), partS("d"), partS("S"), partS("s"),
	partC("Lu", false), partC("Lu", true), partC("Ll", false), partC("Lt", true),
	partP("upper", false), partP("upper", true), partP("alpha", true),
}

type classSub struct {
	Text string
	Cls  ClassExpr
}

func subOf(text string, neg bool, rs [][2]int, shs []string) classSub {
	return classSub{text, ClassExpr{Rs: rs, Cats: []CatRef{}, Shs: shs, Posix: []CatRef{}, Neg: neg, Sub: []ClassExpr{}}}
}

var classSubs = []classSub{
	subOf("[a]", false, [][2]int{{'a', 'a'}}, []string{}),
	subOf("[A-Z]", false, [][2]int{{'A', 'Z'}}, []string{}),
	subOf("[k]", false, [][2]int{{'k', 'k'}}, []string{}),
	subOf(`[\w]`, false, [][2]int{}, []string{"w"}),
	subOf("[^a]", true, [][2]int{{'a', 'a'}}, []string{}),
}

func classDomain() []int {
	set := map[int]bool{}
	for c := 0; c < 128; c++ {
		set[c] = true
	}
	for _, c := range []int{0xA0, 0xAA, 0xB5, 0xC0, 0xD7, 0xDF, 0xE0, 0xFF, 0x130, 0x131, 0x138, 0x178, 0x17F, 0x1C4, 0x1C5, 0x1C6, 0x2BC, 0x345, 0x37E, 0x391, 0x39C, 0x3A3, 0x3B1,
		0x3BC, 0x3C2, 0x3C3, 0x410, 0x430, 0x5D0, 0x660, 0x661, 0x1E9E, 0x2028, 0x200C, 0x200D, 0x2126, 0x212A, 0x212B, 0x2160, 0x2170, 0x24B6, 0x3000, 0x4E00, 0xFF21, 0xFF41,
		0xD7FF, 0xE000, 0xFFFD, 0xFFFF, 0x10000, 0x10400, 0x10428, 0x1D400, 0x1F600, 0xE0001, 0x10FFFE, 0x10FFFF} {
		set[c] = true
	}
	var out []int
	for c := range set {
		out = append(out, c)
	}
	sort.Ints(out)
	return out
}

func init() {
	commands["class-vocab"] = func(args []string) int {
		subs := []ClassExpr{}
		for _, s := range classSubs {
			subs = append(subs, s.Cls)
		}
		enc := json.NewEncoder(os.Stdout)
		enc.SetEscapeHTML(false)
		subtexts := []string{}
		for _, s := range classSubs {
			subtexts = append(subtexts, s.Text)
		}
		enc.Encode(map[string]any{"parts": classParts, "subs": subs, "subtexts": subtexts, "dom": classDomain(), "dias": allDias})
		return 0
	}
	commands["replay-fold"] = func(args []string) int {
		fs := flag.NewFlagSet("replay-fold", flag.ExitOnError)
		in := fs.String("i", "", "TLC output with <<\"F\", json>> predictions of Gen_Fold")
		fs.Parse(args)
		f, err := os.Open(*in)
		if err != nil {
			fmt.Fprintln(os.Stderr, err)
			return 2
		}
		defer f.Close()
		type mism struct {
			Rule  string `json:"rule"`
			Class string `json:"class"`
			IC    bool   `json:"ignore_case"`
			Dia   string `json:"dialect"`
			N     int    `json:"runes_disagreeing"`
			First int    `json:"first_rune"`
			Hex   string `json:"first_rune_hex"`
			Spec  bool   `json:"specification_says_member"`
		}
		mm := []mism{}
		classes, cases := 0, 0
		sc := bufio.NewScanner(f)
		sc.Buffer(make([]byte, 1<<20), 1<<26)
		buf := make([]rune, 1)
		for sc.Scan() {
			p, ok := tlcPayload(sc.Text(), "F")
			if !ok {
				continue
			}
			var rec struct {
				Lo      int   `json:"lo"`
				Hi      int   `json:"hi"`
				Dom     []int `json:"dom"`
				Members []int `json:"members"`
			}
			if err := json.Unmarshal([]byte(p), &rec); err != nil {
				fmt.Fprintln(os.Stderr, "bad F record", err)
				return 2
			}
			text := fmt.Sprintf(`[\x{%X}-\x{%X}]`, rec.Lo, rec.Hi)
			re, err := compile(`\A`+text+`\z`, optBits([]string{"i"}, "net", false))
			if err != nil {
				fmt.Fprintln(os.Stderr, "compile", text, err)
				return 2
			}
			classes++
			want := map[int]bool{}
			for _, c := range rec.Members {
				want[c] = true
			}
			n, first, spec := 0, -1, false
			for _, c := range rec.Dom {
				buf[0] = rune(c)
				got, _ := re.MatchRunes(buf)
				cases++
				if got != want[c] {
					if n == 0 {
						first, spec = c, want[c]
					}
					n++
				}
			}
			if n > 0 && len(mm) < 5000 {
				mm = append(mm, mism{"class.membership", text, true, "net", n, first, fmt.Sprintf("0x%x", first), spec})
			}
		}
		enc := json.NewEncoder(os.Stdout)
		enc.SetEscapeHTML(false)
		enc.Encode(map[string]any{"classes": classes, "cases": cases, "mismatches": mm})
		return 0
	}
	commands["replay-class"] = func(args []string) int {
		fs := flag.NewFlagSet("replay-class", flag.ExitOnError)
		in := fs.String("i", "", "TLC output with <<\"C\", json>> predictions")
		fs.Parse(args)
		f, err := os.Open(*in)
		if err != nil {
			fmt.Fprintln(os.Stderr, err)
			return 2
		}
		defer f.Close()
		dom := classDomain()
		type mism struct {
			Rule   string `json:"rule"`
			Class  string `json:"class"`
			IC     bool   `json:"ignore_case"`
			Dia    string `json:"dialect"`
			Bitmap bool   `json:"ascii_bitmap"`
			N      int    `json:"runes_disagreeing"`
			First  int    `json:"first_rune"`
			Hex    string `json:"first_rune_hex"`
			Spec   bool   `json:"specification_says_member"`
			Detail string `json:"detail,omitempty"`
		}
		mm := []mism{}
		classes, cases, nontrivial := 0, 0, 0
		var mu sync.Mutex
		type crec struct {
			ID      int    `json:"id"`
			P1      int    `json:"p1"`
			P2      int    `json:"p2"`
			Neg     bool   `json:"neg"`
			Sub     int    `json:"sub"`
			IC      bool   `json:"ic"`
			Dia     string `json:"dia"`
			Members []int  `json:"members"`
		}
		work := make(chan crec, 256)
		var wg sync.WaitGroup
		one := func(rec crec) {
			buf := make([]rune, 1)
			text := "["
			if rec.Neg {
				text += "^"
			}
			text += classParts[rec.P1-1].Text
			if rec.P2 > 0 {
				text += classParts[rec.P2-1].Text
			}
			if rec.Sub > 0 {
				text += "-" + classSubs[rec.Sub-1].Text
			}
			text += "]"
			o := []string{}
			if rec.IC {
				o = append(o, "i")
			}
			bitmap := rec.ID%2 == 0
			extra := []regexp2.CompileOption{}
			if !bitmap {
				extra = append(extra, regexp2.OptionDisableCharClassASCIIBitmap())
			}
			re, err := compile(`\A`+text+`\z`, optBits(o, rec.Dia, false), extra...)
			if err != nil {
				mu.Lock()
				classes++
				if len(mm) < 20000 {
					mm = append(mm, mism{Rule: "class.compile", Class: text, IC: rec.IC, Dia: rec.Dia, Bitmap: bitmap, Detail: err.Error()})
				}
				mu.Unlock()
				return
			}
			want := map[int]bool{}
			for _, c := range rec.Members {
				want[c] = true
			}
			n, first, spec := 0, -1, false
			for _, c := range dom {
				buf[0] = rune(c)
				got, _ := re.MatchRunes(buf)
				if got != want[c] {
					if n == 0 {
						first, spec = c, want[c]
					}
					n++
				}
			}
			mu.Lock()
			classes++
			cases += len(dom)
			if len(rec.Members) > 0 && len(rec.Members) < len(dom) {
				nontrivial++
			}
			if n > 0 && len(mm) < 20000 {
				mm = append(mm, mism{Rule: "class.membership", Class: text, IC: rec.IC, Dia: rec.Dia, Bitmap: bitmap, N: n, First: first, Hex: fmt.Sprintf("0x%x", first), Spec: spec})
			}
			mu.Unlock()
		}
		for i := 0; i < runtime.NumCPU(); i++ {
			wg.Add(1)
			go func() {
				defer wg.Done()
				for r := range work {
					one(r)
				}
			}()
		}
		sc := bufio.NewScanner(f)
		sc.Buffer(make([]byte, 1<<20), 1<<26)
		for sc.Scan() {
			p, ok := tlcPayload(sc.Text(), "C")
			if !ok {
				continue
			}
			var rec crec
			if err := json.Unmarshal([]byte(p), &rec); err != nil || rec.P1 < 1 || rec.P1 > len(classParts) || rec.P2 > len(classParts) || rec.Sub > len(classSubs) {
				fmt.Fprintln(os.Stderr, "bad C record", err)
				return 2
			}
			work <- rec
		}
		close(work)
		wg.Wait()
		sort.Slice(mm, func(i, j int) bool { return mm[i].Class+mm[i].Dia < mm[j].Class+mm[j].Dia })
		enc := json.NewEncoder(os.Stdout)
		enc.SetEscapeHTML(false)
		enc.Encode(map[string]any{"classes": classes, "cases": cases, "nontrivial": nontrivial, "mismatches": mm, "domain": len(dom)})
		return 0
	}
}

package main

// replay-compat: C06.  Consumes Gen_Find output (RE2 dialect): for every pattern that Go's regexp
// package also compiles, every input (as string, byte slice - also with invalid UTF-8 injected - and
// rune reader) and n in {-1,0,1,2,3}, all 22 methods of the compat adapter are compared with the
// standard library.  The specification's prediction of the first match is the third leg: when it
// disagrees with the standard library while the adapter agrees, the case is reported as "specdiff"
// (a problem of the check, not of the code).

import (
	"bufio"
	"encoding/json"
	"flag"
	"fmt"
	"os"
	"reflect"
	"regexp"
	"strings"

	regexp2 "github.com/dlclark/regexp2/v2"
	"github.com/dlclark/regexp2/v2/compat"
)

type compatMismatch struct {
	Rule    string `json:"rule"`
	Pattern string `json:"pattern"`
	Input   []int  `json:"input_bytes"`
	InputQ  string `json:"input_quoted"`
	Method  string `json:"method"`
	N       int    `json:"n"`
	Want    string `json:"stdlib"`
	Got     string `json:"adapter"`
}

func show(v any) string {
	rv := reflect.ValueOf(v)
	isNil := false
	switch rv.Kind() {
	case reflect.Slice, reflect.Map, reflect.Pointer:
		isNil = rv.IsNil()
	}
	if isNil {
		return "nil"
	}
	return fmt.Sprintf("%#v", v)
}

func callSafely(f func() any) (out string) {
	defer func() {
		if p := recover(); p != nil {
			out = fmt.Sprintf("PANIC: %v", p)
		}
	}()
	return show(f())
}

func compareCompat(std *regexp.Regexp, ad *compat.Regexp, text string, b []byte, report func(method string, n int, want, got string)) int {
	s := string(b)
	checks := 0
	cmp := func(method string, n int, w func() any, g func() any) {
		checks++
		want, got := callSafely(w), callSafely(g)
		if want != got {
			report(method, n, want, got)
		}
	}
	rr := func() *strings.Reader { return strings.NewReader(s) }
	cmp("Match", 0, func() any { return std.Match(b) }, func() any { return ad.Match(b) })
	cmp("MatchString", 0, func() any { return std.MatchString(s) }, func() any { return ad.MatchString(s) })
	cmp("MatchReader", 0, func() any { return std.MatchReader(rr()) }, func() any { return ad.MatchReader(rr()) })
	cmp("Find", 0, func() any { return std.Find(b) }, func() any { return ad.Find(b) })
	cmp("FindIndex", 0, func() any { return std.FindIndex(b) }, func() any { return ad.FindIndex(b) })
	cmp("FindString", 0, func() any { return std.FindString(s) }, func() any { return ad.FindString(s) })
	cmp("FindStringIndex", 0, func() any { return std.FindStringIndex(s) }, func() any { return ad.FindStringIndex(s) })
	cmp("FindReaderIndex", 0, func() any { return std.FindReaderIndex(rr()) }, func() any { return ad.FindReaderIndex(rr()) })
	cmp("FindSubmatch", 0, func() any { return std.FindSubmatch(b) }, func() any { return ad.FindSubmatch(b) })
	cmp("FindSubmatchIndex", 0, func() any { return std.FindSubmatchIndex(b) }, func() any { return ad.FindSubmatchIndex(b) })
	cmp("FindStringSubmatch", 0, func() any { return std.FindStringSubmatch(s) }, func() any { return ad.FindStringSubmatch(s) })
	cmp("FindStringSubmatchIndex", 0, func() any { return std.FindStringSubmatchIndex(s) }, func() any { return ad.FindStringSubmatchIndex(s) })
	cmp("FindReaderSubmatchIndex", 0, func() any { return std.FindReaderSubmatchIndex(rr()) }, func() any { return ad.FindReaderSubmatchIndex(rr()) })
	for _, n := range []int{-1, 0, 1, 2, 3} {
		n := n
		cmp("FindAll", n, func() any { return std.FindAll(b, n) }, func() any { return ad.FindAll(b, n) })
		cmp("FindAllIndex", n, func() any { return std.FindAllIndex(b, n) }, func() any { return ad.FindAllIndex(b, n) })
		cmp("FindAllString", n, func() any { return std.FindAllString(s, n) }, func() any { return ad.FindAllString(s, n) })
		cmp("FindAllStringIndex", n, func() any { return std.FindAllStringIndex(s, n) }, func() any { return ad.FindAllStringIndex(s, n) })
		cmp("FindAllSubmatch", n, func() any { return std.FindAllSubmatch(b, n) }, func() any { return ad.FindAllSubmatch(b, n) })
		cmp("FindAllSubmatchIndex", n, func() any { return std.FindAllSubmatchIndex(b, n) }, func() any { return ad.FindAllSubmatchIndex(b, n) })
		cmp("FindAllStringSubmatch", n, func() any { return std.FindAllStringSubmatch(s, n) }, func() any { return ad.FindAllStringSubmatch(s, n) })
		cmp("FindAllStringSubmatchIndex", n, func() any { return std.FindAllStringSubmatchIndex(s, n) }, func() any { return ad.FindAllStringSubmatchIndex(s, n) })
	}
	return checks
}

func init() {
	commands["replay-compat"] = func(args []string) int {
		fs := flag.NewFlagSet("replay-compat", flag.ExitOnError)
		in := fs.String("i", "-", "TLC output of Gen_Find (dialect re2)")
		fs.Parse(args)
		f := os.Stdin
		if *in != "-" {
			var err error
			if f, err = os.Open(*in); err != nil {
				fmt.Fprintln(os.Stderr, err)
				return 2
			}
			defer f.Close()
		}
		sc := bufio.NewScanner(f)
		sc.Buffer(make([]byte, 1<<20), 1<<28)
		var inputs [][]int
		var mism []compatMismatch
		patterns, notCommon, adapterErr, checks, specdiff, nontrivial := 0, 0, 0, 0, 0, 0
		samples := []any{}
		for sc.Scan() {
			line := sc.Text()
			if p, ok := tlcPayload(line, "INPUTS"); ok {
				var ir struct {
					Inputs [][]int `json:"inputs"`
				}
				if err := json.Unmarshal([]byte(p), &ir); err != nil {
					return 2
				}
				inputs = ir.Inputs
				continue
			}
			p, ok := tlcPayload(line, "P")
			if !ok {
				continue
			}
			var g genRec
			if err := json.Unmarshal([]byte(p), &g); err != nil {
				fmt.Fprintln(os.Stderr, "bad P record:", err)
				return 2
			}
			text := PrintPat(g.P, PrintOpts{RE2: true})
			std, err := regexp.Compile(text)
			if err != nil {
				notCommon++
				continue
			}
			var ad *compat.Regexp
			if err := safely(func() (e error) { ad, e = compat.Compile(text, regexp2.RE2); return }); err != nil {
				adapterErr++
				if len(mism) < 400 {
					mism = append(mism, compatMismatch{Rule: "compat.compile", Pattern: text, Method: "Compile", Want: "ok", Got: err.Error()})
				}
				continue
			}
			patterns++
			matched := false
			for k, s := range inputs {
				base := []byte(string(intsToRunes(s)))
				variants := [][]byte{base}
				if len(base) > 0 && (g.Pid+k)%3 == 0 {
					pos := (g.Pid + k) % (len(base) + 1)
					inv := append(append(append([]byte{}, base[:pos]...), 0xff), base[pos:]...)
					variants = append(variants, inv)
					if k%2 == 0 {
						variants = append(variants, append(append([]byte{}, base...), 0xe2, 0x82)) // truncated sequence
					}
				}
				for vi, b := range variants {
					bb := b
					checks += compareCompat(std, ad, text, bb, func(method string, n int, want, got string) {
						if len(mism) < 400 {
							ints := make([]int, len(bb))
							for i, x := range bb {
								ints[i] = int(x)
							}
							rule := "compat." + method
							if strings.HasPrefix(got, "PANIC") {
								rule = "compat.panic"
							}
							mism = append(mism, compatMismatch{Rule: rule, Pattern: text, Input: ints, InputQ: fmt.Sprintf("%q", string(bb)), Method: method, N: n, Want: want, Got: got})
						}
					})
					if vi == 0 {
						// third leg: the specification's prediction for start offset 0
						pred, err := decodePred(g.Res[k][0])
						loc := std.FindStringIndex(string(b))
						if err == nil {
							if loc != nil {
								matched = true
							}
							runes := []rune(string(b))
							specOK := (loc == nil) == !pred.Ok
							if specOK && pred.Ok {
								specOK = len(string(runes[:pred.Idx])) == loc[0] && len(string(runes[:pred.Idx+pred.Len])) == loc[1]
							}
							if !specOK {
								specdiff++
								if specdiff <= 40 {
									mism = append(mism, compatMismatch{Rule: "SPECDIFF", Pattern: text, InputQ: fmt.Sprintf("%q", string(b)), Method: "FindStringIndex", Want: show(loc), Got: fmt.Sprint(pred)})
								}
							}
						}
					}
				}
			}
			if matched {
				nontrivial++
			}
			if len(samples) < 4 && g.Pid%11 == 4 {
				samples = append(samples, map[string]any{"pattern": text, "inputs": len(inputs), "methods": 22, "n_values": []int{-1, 0, 1, 2, 3}})
			}
		}
		if mism == nil {
			mism = []compatMismatch{}
		}
		out := map[string]any{"patterns": patterns, "not_common_syntax": notCommon, "adapter_compile_errors": adapterErr, "checks": checks, "specdiff": specdiff,
			"nontrivial": nontrivial, "mismatches": mism, "samples": samples}
		enc := json.NewEncoder(os.Stdout)
		enc.SetEscapeHTML(false)
		enc.Encode(out)
		return 0
	}
}

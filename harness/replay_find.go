package main

// replay-find: direction F.  Consumes the output of TLC running spec/Gen_Find.tla (lines
// <<"INPUTS", json>> and <<"P", json>>), prints every predicted table as pattern text, runs the real
// engine on every input and start offset and compares with the prediction.

import (
	"bufio"
	"encoding/json"
	"flag"
	"fmt"
	"os"
	"reflect"
	"runtime"
	"strconv"
	"strings"
	"sync"
)

type genRec struct {
	Pid int                 `json:"pid"`
	O   []string            `json:"o"`
	P   Pat                 `json:"p"`
	Res [][]json.RawMessage `json:"res"` // Res[input][start] = [] | [idx,len,caps]
}

type genMismatch struct {
	Pid     int      `json:"pid"`
	Text    string   `json:"pattern"`
	P       Pat      `json:"p"`
	O       []string `json:"options"`
	Dia     string   `json:"dialect"`
	RTL     bool     `json:"rtl"`
	S       []int    `json:"input"`
	SText   string   `json:"input_text"`
	Start   int      `json:"start"`
	Pred    any      `json:"predicted"`
	Real    Res      `json:"real"`
	Rule    string   `json:"rule"`
	Compile string   `json:"compile_error,omitempty"`
}

// tlcPayload extracts the JSON payload of a line <<"TAG", "escaped json">>
func tlcPayload(line, tag string) (string, bool) {
	pre := `<<"` + tag + `", `
	if !strings.HasPrefix(line, pre) {
		return "", false
	}
	body := strings.TrimSuffix(strings.TrimSpace(line[len(pre):]), ">>")
	s, err := strconv.Unquote(body)
	if err != nil {
		return "", false
	}
	return s, true
}

func decodePred(raw json.RawMessage) (Res, error) {
	var arr []json.RawMessage
	if err := json.Unmarshal(raw, &arr); err != nil {
		return Res{}, err
	}
	if len(arr) == 0 {
		return Res{Caps: [][][2]int{}}, nil
	}
	r := Res{Ok: true, Caps: [][][2]int{}}
	if err := json.Unmarshal(arr[0], &r.Idx); err != nil {
		return r, err
	}
	if err := json.Unmarshal(arr[1], &r.Len); err != nil {
		return r, err
	}
	if err := json.Unmarshal(arr[2], &r.Caps); err != nil {
		return r, err
	}
	for i := range r.Caps {
		if r.Caps[i] == nil {
			r.Caps[i] = [][2]int{}
		}
	}
	return r, nil
}

func init() {
	commands["replay-find"] = func(args []string) int {
		fs := flag.NewFlagSet("replay-find", flag.ExitOnError)
		in := fs.String("i", "-", "TLC output")
		dia := fs.String("dia", "net", "dialect")
		rtl := fs.Bool("rtl", false, "RightToLeft")
		fs.Parse(args)
		f := os.Stdin
		if *in != "-" {
			var err error
			if f, err = os.Open(*in); err != nil {
				fmt.Fprintln(os.Stderr, err)
				return 2
			}
			defer f.Close()
		}
		sc := bufio.NewScanner(f)
		sc.Buffer(make([]byte, 1<<20), 1<<28)

		var inputs [][]int
		var mu sync.Mutex
		var mism []genMismatch
		patterns, cases, matches, skipped, nontrivial, compileErrs := 0, 0, 0, 0, 0, 0
		var samples []map[string]any
		lines := make(chan string, 64)
		var wg sync.WaitGroup
		work := func() {
			defer wg.Done()
			for payload := range lines {
				var g genRec
				if err := json.Unmarshal([]byte(payload), &g); err != nil {
					fmt.Fprintln(os.Stderr, "bad P record:", err)
					os.Exit(2)
				}
				o := g.O
				if o == nil {
					o = []string{}
				}
				text := PrintPat(g.P, PrintOpts{X: has(o, "x"), RE2: *dia == "re2", XNoise: g.Pid % 3})
				re, err := compile(text, optBits(o, *dia, *rtl))
				lp, lc, lm, lnt := 1, 0, 0, 0
				var lmis []genMismatch
				if err != nil {
					mu.Lock()
					compileErrs++
					mism = append(mism, genMismatch{Pid: g.Pid, Text: text, P: g.P, O: o, Dia: *dia, RTL: *rtl, Rule: "compile.error", Compile: err.Error()})
					mu.Unlock()
					continue
				}
				for k, s := range inputs {
					runes := intsToRunes(s)
					nt := false
					for st := 0; st <= len(s); st++ {
						pred, err := decodePred(g.Res[k][st])
						if err != nil {
							fmt.Fprintln(os.Stderr, "bad prediction:", err)
							os.Exit(2)
						}
						real := findRunesAt(re, runes, st)
						lc++
						if real.Ok {
							lm++
						}
						natural := (!*rtl && st == 0) || (*rtl && st == len(s))
						if natural && pred.Ok && (pred.Idx != st && !*rtl || len(pred.Caps) > 0 || (*rtl && pred.Idx+pred.Len != st)) {
							nt = true
						}
						if real.Err != "" || real.Ok != pred.Ok || (pred.Ok && (real.Idx != pred.Idx || real.Len != pred.Len || !reflect.DeepEqual(real.Caps, pred.Caps))) {
							rule := "find.mismatch"
							if strings.HasPrefix(real.Err, "PANIC") {
								rule = "panic"
							}
							lmis = append(lmis, genMismatch{Pid: g.Pid, Text: text, P: g.P, O: o, Dia: *dia, RTL: *rtl, S: s, SText: string(runes), Start: st, Pred: pred, Real: real, Rule: rule})
						}
					}
					if nt {
						lnt++
					}
				}
				mu.Lock()
				patterns += lp
				cases += lc
				matches += lm
				nontrivial += lnt
				// at most three mismatches per pattern, so that the occurrences of one (possibly already listed) defect
				// cannot use up the room of the report and mask a different one
				if len(lmis) > 3 {
					lmis = lmis[:3]
				}
				if len(mism) < 3000 {
					mism = append(mism, lmis...)
				}
				if len(samples) < 4 && g.Pid%7 == 3 {
					samples = append(samples, map[string]any{"pid": g.Pid, "pattern": text, "input": string(intsToRunes(inputs[len(inputs)-1])), "predicted_by_start": g.Res[len(inputs)-1]})
				}
				mu.Unlock()
			}
		}
		started := false
		for sc.Scan() {
			line := sc.Text()
			if p, ok := tlcPayload(line, "INPUTS"); ok {
				var ir struct {
					N      int     `json:"n"`
					Inputs [][]int `json:"inputs"`
				}
				if err := json.Unmarshal([]byte(p), &ir); err != nil {
					fmt.Fprintln(os.Stderr, "bad INPUTS:", err)
					return 2
				}
				inputs = ir.Inputs
				for i := range inputs {
					if inputs[i] == nil {
						inputs[i] = []int{}
					}
				}
				continue
			}
			if _, ok := tlcPayload(line, "SKIP"); ok {
				skipped++
				continue
			}
			if _, ok := tlcPayload(line, "WFERR"); ok {
				fmt.Fprintln(os.Stderr, "ill-formed table generated by the spec:", line)
				return 2
			}
			if p, ok := tlcPayload(line, "P"); ok {
				if inputs == nil {
					fmt.Fprintln(os.Stderr, "P before INPUTS")
					return 2
				}
				if !started {
					started = true
					for i := 0; i < runtime.NumCPU(); i++ {
						wg.Add(1)
						go work()
					}
				}
				lines <- p
			}
		}
		close(lines)
		wg.Wait()
		out := map[string]any{"patterns": patterns, "cases": cases, "matches": matches, "skipped_outside_fragment": skipped,
			"nontrivial": nontrivial, "inputs": len(inputs), "mismatches": mism, "samples": samples, "compile_errors": compileErrs}
		if mism == nil {
			out["mismatches"] = []genMismatch{}
		}
		enc := json.NewEncoder(os.Stdout)
		enc.SetEscapeHTML(false)
		enc.Encode(out)
		return 0
	}
}

package main

// replay-groups: direction F for C17.  Consumes <<"G", json>> lines printed by TLC running
// spec/Gen_Groups.tla: a sequence of group declarations, a mode, and the numbering Groups.tla
// predicts.  Builds a pattern in which the i-th declaration matches the i-th letter and checks every
// observable of the name/number map against the prediction.

import (
	"bufio"
	"encoding/json"
	"flag"
	"fmt"
	"os"
	"reflect"
	"strconv"
	"strings"

	regexp2 "github.com/dlclark/regexp2/v2"
)

type gDecl struct {
	Kind string `json:"kind"`
	Nm   string `json:"nm"`
	Num  int    `json:"num"`
	X    bool   `json:"x"`
}

type gRec struct {
	Len        int      `json:"len"`
	ID         int      `json:"id"`
	Mode       string   `json:"mode"`
	Ds         []gDecl  `json:"ds"`
	Num        []int    `json:"num"`
	Numbers    []int    `json:"numbers"`
	Names      []string `json:"names"`
	Consistent bool     `json:"consistent"`
}

type gMismatch struct {
	Rule    string   `json:"rule"`
	Pattern string   `json:"pattern"`
	Mode    string   `json:"mode"`
	Dialect string   `json:"dialect"`
	What    string   `json:"what"`
	Want    any      `json:"predicted"`
	Got     any      `json:"real"`
	Ds      []gDecl  `json:"ds"`
	Numbers []int    `json:"numbers"`
	Names   []string `json:"names"`
}

func groupsPattern(ds []gDecl, re2 bool) (string, string) {
	var sb, in strings.Builder
	for i, d := range ds {
		letter := string(rune('a' + i))
		in.WriteString(letter)
		var g string
		switch d.Kind {
		case "u":
			g = "(" + letter + ")"
		default:
			if re2 && d.Kind == "n" {
				g = "(?P<" + d.Nm + ">" + letter + ")"
			} else {
				g = "(?<" + d.Nm + ">" + letter + ")"
			}
		}
		if d.X {
			g = "(?n:" + g + ")"
		}
		sb.WriteString(g)
	}
	return sb.String(), in.String()
}

func checkGroups(g gRec, dialect string, out *[]gMismatch) (checks int) {
	pat, input := groupsPattern(g.Ds, dialect == "re2")
	bad := func(what string, want, got any) {
		if len(*out) < 20000 {
			*out = append(*out, gMismatch{Rule: "groups." + strings.SplitN(what, " ", 2)[0], Pattern: pat, Mode: g.Mode, Dialect: dialect, What: what, Want: want, Got: got, Ds: g.Ds, Numbers: g.Numbers, Names: g.Names})
		}
	}
	opts := []regexp2.CompileOption{}
	switch dialect {
	case "re2":
		opts = append(opts, regexp2.RE2)
	case "ecma":
		opts = append(opts, regexp2.ECMAScript)
	}
	if g.Mode == "order" && dialect != "ecma" {
		opts = append(opts, regexp2.OptionMaintainCaptureOrder())
	}
	var re *regexp2.Regexp
	if err := safely(func() (e error) { re, e = regexp2.Compile(pat, opts...); return }); err != nil {
		bad("compile", "ok", err.Error())
		return 1
	}
	wantNames := g.Names
	if dialect == "ecma" {
		// unnamed groups have no name under ECMAScript
		wantNames = make([]string, len(g.Names))
		for k, n := range g.Numbers {
			named := false
			for i, d := range g.Ds {
				if g.Num[i] == n && d.Kind != "u" {
					named = true
				}
			}
			if named {
				wantNames[k] = g.Names[k]
			}
		}
	}
	eq := func(what string, want, got any) {
		checks++
		if !reflect.DeepEqual(want, got) {
			bad(what, want, got)
		}
	}
	eq("GetGroupNumbers", g.Numbers, re.GetGroupNumbers())
	eq("GetGroupNames", wantNames, re.GetGroupNames())
	for k, n := range g.Numbers {
		eq(fmt.Sprintf("GroupNameFromNumber %d", n), wantNames[k], re.GroupNameFromNumber(n))
		if wantNames[k] != "" {
			// the first number carrying that name
			first := n
			for k2, nm := range wantNames {
				if nm == wantNames[k] {
					first = g.Numbers[k2]
					break
				}
			}
			eq(fmt.Sprintf("GroupNumberFromName %s", wantNames[k]), first, re.GroupNumberFromName(wantNames[k]))
		}
	}
	eq("GroupNumberFromName nosuch", -1, re.GroupNumberFromName("nosuch"))
	var m *regexp2.Match
	if err := safely(func() (e error) { m, e = re.FindStringMatch(input); return }); err != nil || m == nil {
		bad("match", "a match on "+input, fmt.Sprint(err))
		return checks + 1
	}
	// captures each number should hold: letters of the declarations with that number, in order
	want := map[int][]string{}
	for i := range g.Ds {
		if g.Num[i] != 0 {
			want[g.Num[i]] = append(want[g.Num[i]], string(rune('a'+i)))
		}
	}
	capsOf := func(gr *regexp2.Group) []string {
		var cs []string
		for _, c := range gr.Captures {
			cs = append(cs, c.String())
		}
		return cs
	}
	gs := m.Groups()
	eq("Groups() length", len(g.Numbers), len(gs))
	for k, n := range g.Numbers {
		if k >= len(gs) {
			break
		}
		eq(fmt.Sprintf("Groups()[%d].Name", k), wantNames[k], gs[k].Name)
		if n != 0 {
			eq(fmt.Sprintf("Groups()[%d] captures", k), want[n], capsOf(&gs[k]))
			gb := m.GroupByNumber(n)
			if gb == nil {
				bad(fmt.Sprintf("GroupByNumber %d", n), want[n], nil)
			} else {
				eq(fmt.Sprintf("GroupByNumber %d", n), want[n], capsOf(gb))
			}
			if wantNames[k] != "" && g.Consistent {
				gn := m.GroupByName(wantNames[k])
				if gn == nil {
					bad(fmt.Sprintf("GroupByName %s", wantNames[k]), want[n], nil)
				} else {
					eq(fmt.Sprintf("GroupByName %s", wantNames[k]), want[n], capsOf(gn))
				}
			}
		}
	}
	// back-references and replacements designate the same group
	for k, n := range g.Numbers {
		if n == 0 {
			continue
		}
		if len(want[n]) == 0 {
			bad(fmt.Sprintf("prediction number %d has no declaration", n), "a declaration", "none")
			continue
		}
		last := want[n][len(want[n])-1]
		refs := []string{`\` + strconv.Itoa(n)}
		reps := []string{"$" + strconv.Itoa(n), "${" + strconv.Itoa(n) + "}"}
		if g.Consistent && wantNames[k] != "" && (dialect != "ecma") {
			refs = append(refs, `\k<`+wantNames[k]+`>`)
		}
		if g.Consistent && wantNames[k] != "" {
			reps = append(reps, "${"+wantNames[k]+"}")
		}
		for _, ref := range refs {
			var rr *regexp2.Regexp
			if err := safely(func() (e error) { rr, e = regexp2.Compile(pat+"(?:"+ref+")", opts...); return }); err != nil {
				bad("backreference "+ref, "compiles", err.Error())
				continue
			}
			ok1, _ := rr.MatchString(input + last)
			other := "z"
			ok2, _ := rr.MatchString(input + other)
			eq("backreference "+ref+" repeats the last capture", []bool{true, false}, []bool{ok1, ok2})
		}
		for _, rp := range reps {
			var got string
			if err := safely(func() (e error) { got, e = re.Replace(input, "["+rp+"]", -1, -1); return }); err != nil {
				bad("replacement "+rp, "ok", err.Error())
				continue
			}
			eq("replacement "+rp, "["+last+"]", got)
		}
	}
	return checks
}

func init() {
	commands["replay-groups"] = func(args []string) int {
		fs := flag.NewFlagSet("replay-groups", flag.ExitOnError)
		in := fs.String("i", "-", "TLC output")
		fs.Parse(args)
		f := os.Stdin
		if *in != "-" {
			var err error
			if f, err = os.Open(*in); err != nil {
				fmt.Fprintln(os.Stderr, err)
				return 2
			}
			defer f.Close()
		}
		sc := bufio.NewScanner(f)
		sc.Buffer(make([]byte, 1<<20), 1<<26)
		var mism []gMismatch
		cases, checks, nontrivial, inconsistent := 0, 0, 0, 0
		samples := []any{}
		for sc.Scan() {
			p, ok := tlcPayload(sc.Text(), "G")
			if !ok {
				continue
			}
			var g gRec
			if err := json.Unmarshal([]byte(p), &g); err != nil {
				fmt.Fprintln(os.Stderr, "bad G record:", err)
				return 2
			}
			dialects := []string{"net"}
			hasK := false
			for _, d := range g.Ds {
				if d.Kind == "k" {
					hasK = true
				}
			}
			if !hasK {
				dialects = append(dialects, "re2")
			}
			dup := map[string]bool{}
			hasDup := false
			for _, d := range g.Ds {
				if d.Kind != "u" {
					if dup[d.Nm] {
						hasDup = true
					}
					dup[d.Nm] = true
				}
			}
			if g.Mode == "order" && !hasDup && !hasK {
				dialects = append(dialects, "ecma")
			}
			if !g.Consistent {
				inconsistent++
			}
			for _, dia := range dialects {
				cases++
				checks += checkGroups(g, dia, &mism)
			}
			kinds := map[string]bool{}
			for _, d := range g.Ds {
				kinds[d.Kind+fmt.Sprint(d.X)] = true
			}
			if len(kinds) >= 2 {
				nontrivial++
				if len(samples) < 4 && g.ID%13 == 5 {
					pat, _ := groupsPattern(g.Ds, false)
					samples = append(samples, map[string]any{"pattern": pat, "mode": g.Mode, "predicted_numbers": g.Numbers, "predicted_names": g.Names, "number_of_each_declaration": g.Num})
				}
			}
		}
		out := map[string]any{"cases": cases, "checks": checks, "nontrivial": nontrivial, "inconsistent_predictions": inconsistent, "mismatches": mism, "samples": samples}
		if mism == nil {
			out["mismatches"] = []gMismatch{}
		}
		enc := json.NewEncoder(os.Stdout)
		enc.SetEscapeHTML(false)
		enc.Encode(out)
		return 0
	}
}

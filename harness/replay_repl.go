package main

// repl-contexts / replay-repl: forward conformance for the replacement mini-language (C09).
// repl-contexts writes the contexts (pattern facts and the first match, taken from the real engine) that
// spec/Gen_Repl.tla needs; replay-repl reads TLC's predictions and compares them with the real Replace.

import (
	"bufio"
	"encoding/json"
	"flag"
	"fmt"
	"os"

	regexp2 "github.com/dlclark/regexp2/v2"
)

type replCtx struct {
	Pattern string     `json:"pattern"`
	Opts    int        `json:"opts"`
	Input   string     `json:"input"`
	S       []int      `json:"s"`
	RTL     bool       `json:"rtl"`
	GNums   []int      `json:"gnums"`
	Names   [][]int    `json:"names"`
	Nums    []int      `json:"nums"`
	Last    int        `json:"last"`
	Idx     int        `json:"idx"`
	Len     int        `json:"len"`
	Caps    [][][2]int `json:"caps"`
}

var replContexts = []struct {
	pat   string
	opts  regexp2.RegexOptions
	input string
}{
	{`(b)(x)?(c)`, 0, "abcdbc"},                             // dense numbering, an unmatched group
	{`(?<n>b)(?<m>c)+`, 0, "abccd"},                         // names, several captures of one group
	{`(?<3>b)(?<12>c)(?<n>d)?`, 0, "abcde"},                 // sparse explicit numbers (number -> slot map)
	{`(b)(?<n>c)`, regexp2.RightToLeft, "abcbcd"},           // right to left: the first match is the rightmost
	{`(?P<n>b)(c)`, regexp2.RE2, "a😀bcd"},                   // RE2 spelling, astral rune left of the match
	{`(?<2>b)(c)(?<m>d)`, regexp2.ExplicitCapture, "xbcdy"}, // ExplicitCapture: the unnamed group does not count
}

func replCompile(i int) (*regexp2.Regexp, error) {
	return regexp2.Compile(replContexts[i].pat, replContexts[i].opts)
}

func init() {
	commands["repl-contexts"] = func(args []string) int {
		var out []replCtx
		for i, c := range replContexts {
			re, err := replCompile(i)
			if err != nil {
				fmt.Fprintln(os.Stderr, "context", i, err)
				return 2
			}
			m, err := re.FindStringMatch(c.input)
			if err != nil || m == nil {
				fmt.Fprintln(os.Stderr, "context", i, "has no match", err)
				return 2
			}
			x := replCtx{Pattern: c.pat, Opts: int(c.opts), Input: c.input, S: runesToInts([]rune(c.input)), RTL: c.opts&regexp2.RightToLeft != 0,
				GNums: re.GetGroupNumbers(), Names: [][]int{}, Nums: []int{}, Idx: m.RuneIndex, Len: m.RuneLength, Caps: [][][2]int{}}
			for _, nm := range re.GetGroupNames() {
				x.Names = append(x.Names, runesToInts([]rune(nm)))
				x.Nums = append(x.Nums, re.GroupNumberFromName(nm))
			}
			x.Last = x.GNums[len(x.GNums)-1]
			for _, n := range x.GNums[1:] {
				cs := [][2]int{}
				g := m.GroupByNumber(n)
				for k := range g.Captures {
					cs = append(cs, [2]int{g.Captures[k].RuneIndex, g.Captures[k].RuneLength})
				}
				x.Caps = append(x.Caps, cs)
			}
			out = append(out, x)
		}
		enc := json.NewEncoder(os.Stdout)
		enc.SetEscapeHTML(false)
		enc.Encode(out)
		return 0
	}
	commands["replay-repl"] = func(args []string) int {
		fs := flag.NewFlagSet("replay-repl", flag.ExitOnError)
		in := fs.String("i", "", "TLC output with <<\"R\", json>> predictions")
		fs.Parse(args)
		f, err := os.Open(*in)
		if err != nil {
			fmt.Fprintln(os.Stderr, err)
			return 2
		}
		defer f.Close()
		res := make([]*regexp2.Regexp, len(replContexts))
		for i := range res {
			if res[i], err = replCompile(i); err != nil {
				fmt.Fprintln(os.Stderr, err)
				return 2
			}
		}
		type mism struct {
			Rule      string `json:"rule"`
			Pattern   string `json:"pattern"`
			Options   int    `json:"options"`
			Input     string `json:"input"`
			Repl      string `json:"replacement"`
			Predicted string `json:"predicted"`
			Real      string `json:"real"`
		}
		mm := []mism{}
		strs, cases, nontrivial := 0, 0, 0
		sc := bufio.NewScanner(f)
		sc.Buffer(make([]byte, 1<<20), 1<<26)
		for sc.Scan() {
			p, ok := tlcPayload(sc.Text(), "R")
			if !ok {
				continue
			}
			var rec struct {
				R    []int   `json:"r"`
				Outs [][]int `json:"outs"`
			}
			if err := json.Unmarshal([]byte(p), &rec); err != nil {
				fmt.Fprintln(os.Stderr, "bad R record", err)
				return 2
			}
			if len(rec.Outs) != len(replContexts) {
				fmt.Fprintln(os.Stderr, "prediction has", len(rec.Outs), "contexts")
				return 2
			}
			strs++
			repl := string(intsToRunes(rec.R))
			for i, c := range replContexts {
				got, err := res[i].Replace(c.input, repl, -1, 1)
				want := string(intsToRunes(rec.Outs[i]))
				cases++
				if err != nil {
					got = "ERROR " + err.Error()
				}
				if got != want && len(mm) < 200 {
					mm = append(mm, mism{"replace.language", c.pat, int(c.opts), c.input, repl, want, got})
				}
			}
			for _, ch := range rec.R {
				if ch == '$' {
					nontrivial++
					break
				}
			}
		}
		out := map[string]any{"strings": strs, "cases": cases, "nontrivial": nontrivial, "mismatches": mm}
		enc := json.NewEncoder(os.Stdout)
		enc.SetEscapeHTML(false)
		enc.Encode(out)
		return 0
	}
}

package main

// replay-tokens: C10.  Consumes <<"T", "[i,j,k]">> token-index strings enumerated by TLC
// (spec/Gen_Tokens.tla), builds the pattern, compiles it under several option subsets and calls the
// whole API on hostile inputs with in- and out-of-range arguments, under recover and a watchdog.

import (
	"bufio"
	"encoding/json"
	"errors"
	"flag"
	"fmt"
	goast "go/ast"
	goparser "go/parser"
	"go/token"
	"os"
	"runtime"
	"strconv"
	"strings"
	"sync"
	"time"

	regexp2 "github.com/dlclark/regexp2/v2"
	"github.com/dlclark/regexp2/v2/compat"
	"github.com/dlclark/regexp2/v2/syntax"
)

var tokenAlphabet = []string{"(", ")", "[", "]", "{", "}", "|", "\\", "?", "*", "+", "^", "$", ".", "-", ",", ":", "<", ">", "'", "=", "!", "#", "P", "k", "p",
	"0", "1", "9", "a", "b", "n", "x", "\\p{", "(?<", "(?'", "(?(", "[:", "\\x{", "\\u", "\\c", "\U0001F600", "\xff", "\x00", " ", "\n", "(?", "i", "-[", "L}", "\\k<", "\\G", "\\b", "{2,", "a>", "1)"}

var tokenInputs = []string{"", "a", "ab1 \n", "aaa(b)[x]{2}", "\xffa\x00b\xe2\x82", "😀é́z", "xxxxxxxxxxxxxxxxxxxxxxxx!"}

type tokMismatch struct {
	Rule    string `json:"rule"`
	Pattern string `json:"pattern"`
	PatQ    string `json:"pattern_quoted"`
	Options int    `json:"options"`
	Call    string `json:"call"`
	Input   string `json:"input_quoted"`
	Detail  string `json:"detail"`
}

type errParse interface{ Error() string }

func allowedErr(err error) bool {
	if err == nil {
		return true
	}
	if errors.Is(err, regexp2.ErrBacktrackingStackLimit) || strings.Contains(err.Error(), "match timeout") {
		return true
	}
	return false
}

func isArgErr(err error) bool {
	if err == nil {
		return false
	}
	m := err.Error()
	return strings.Contains(m, "startAt must") || strings.Contains(m, "count too small")
}

func isReplErr(err error) bool {
	// a replacement string is parsed when Replace is called: its parse errors are documented argument errors of Replace
	var pe *syntax.Error
	return errors.As(err, &pe)
}

func init() {
	commands["replay-tokens"] = func(args []string) int {
		fs := flag.NewFlagSet("replay-tokens", flag.ExitOnError)
		in := fs.String("i", "-", "TLC output of Gen_Tokens")
		nopt := fs.Int("nopt", 3, "option subsets per pattern")
		harvest := fs.String("harvest", "", "repository root: every string literal of its *_test.go files is a further pattern")
		hstride := fs.Int("hstride", 1, "take every hstride-th harvested literal ...")
		hoffset := fs.Int("hoffset", 0, "... starting at this one")
		corpus := fs.String("corpus", "", "directory whose files are additional patterns (the repository's parser corpus)")
		fs.Parse(args)
		f := os.Stdin
		if *in != "-" {
			var err error
			if f, err = os.Open(*in); err != nil {
				fmt.Fprintln(os.Stderr, err)
				return 2
			}
			defer f.Close()
		}
		sc := bufio.NewScanner(f)
		sc.Buffer(make([]byte, 1<<20), 1<<26)
		var mu sync.Mutex
		var mism []tokMismatch
		var patterns, compiled, parseErrs, calls, argErrs int64
		samples := []string{}
		report := func(m tokMismatch) {
			mu.Lock()
			if len(mism) < 300 {
				mism = append(mism, m)
			}
			mu.Unlock()
		}
		type job struct {
			toks  []int
			raw   string
			extra []string // further inputs for this pattern
		}
		work := make(chan job, 256)
		var wg sync.WaitGroup
		optionSets := []regexp2.RegexOptions{0, regexp2.IgnoreCase | regexp2.IgnorePatternWhitespace, regexp2.RE2, regexp2.ECMAScript, regexp2.RightToLeft | regexp2.Multiline,
			regexp2.ExplicitCapture | regexp2.Singleline, regexp2.ECMAScript | regexp2.Unicode, regexp2.IgnoreCase | regexp2.RightToLeft | regexp2.RE2}
		var suspects []job
		confirming := false
		var runOne func(toks []int, raw string, extra []string)
		runOne = func(toks []int, raw string, extra []string) {
			var sb strings.Builder
			for _, t := range toks {
				sb.WriteString(tokenAlphabet[t%len(tokenAlphabet)])
			}
			pat := sb.String() + raw
			h := 0
			for _, t := range toks {
				h = h*31 + t
			}
			for i := 0; i < len(raw); i++ {
				h = (h*31 + int(raw[i])) & 0xffffff
			}
			mu.Lock()
			patterns++
			if len(samples) < 5 && h%97 == 3 {
				samples = append(samples, fmt.Sprintf("%q", pat))
			}
			mu.Unlock()
			guard := func(call, input string, opt regexp2.RegexOptions, f func() error, wantArgErr *bool, extraOK func(error) bool) {
				done := make(chan struct{})
				var err error
				var pan any
				go func() {
					defer func() {
						pan = recover()
						close(done)
					}()
					err = f()
				}()
				select {
				case <-done:
				case <-time.After(20 * time.Second):
					if confirming {
						report(tokMismatch{"robust.hang", pat, fmt.Sprintf("%q", pat), int(opt), call, fmt.Sprintf("%q", input), "no return within 20 s (twice: in the parallel run and again alone)"})
					} else {
						// a verdict needs a reproduction: the pattern is run again, alone, after the parallel phase
						mu.Lock()
						suspects = append(suspects, job{toks: toks, raw: raw, extra: extra})
						mu.Unlock()
					}
					return
				}
				mu.Lock()
				calls++
				mu.Unlock()
				if pan != nil {
					report(tokMismatch{"robust.panic", pat, fmt.Sprintf("%q", pat), int(opt), call, fmt.Sprintf("%q", input), fmt.Sprint(pan)})
					return
				}
				if wantArgErr != nil {
					if *wantArgErr != isArgErr(err) && !(extraOK != nil && extraOK(err)) {
						report(tokMismatch{"robust.argerror", pat, fmt.Sprintf("%q", pat), int(opt), call, fmt.Sprintf("%q", input), fmt.Sprintf("argument error expected=%v, got %v", *wantArgErr, err)})
					}
					if isArgErr(err) {
						mu.Lock()
						argErrs++
						mu.Unlock()
					}
					if *wantArgErr {
						return
					}
				}
				if !allowedErr(err) && !(extraOK != nil && extraOK(err)) {
					report(tokMismatch{"robust.error", pat, fmt.Sprintf("%q", pat), int(opt), call, fmt.Sprintf("%q", input), err.Error()})
				}
			}
			// Escape / Unescape never panic
			guard("Escape", pat, 0, func() error { regexp2.Escape(pat); return nil }, nil, nil)
			guard("Unescape", pat, 0, func() error { regexp2.Unescape(pat); return nil }, nil, func(error) bool { return true })
			for k := 0; k < *nopt; k++ {
				opt := optionSets[(h+k*3)%len(optionSets)]
				if opt < 0 {
					opt = -opt
				}
				var re *regexp2.Regexp
				var cerr error
				var pan any
				func() {
					defer func() { pan = recover() }()
					re, cerr = regexp2.Compile(pat, opt)
				}()
				if pan != nil {
					report(tokMismatch{"robust.panic", pat, fmt.Sprintf("%q", pat), int(opt), "Compile", "", fmt.Sprint(pan)})
					continue
				}
				if cerr != nil {
					var pe *syntax.Error
					if !errors.As(cerr, &pe) {
						report(tokMismatch{"robust.error", pat, fmt.Sprintf("%q", pat), int(opt), "Compile", "", "not a parse error: " + cerr.Error()})
					}
					mu.Lock()
					parseErrs++
					mu.Unlock()
					continue
				}
				mu.Lock()
				compiled++
				mu.Unlock()
				re.MatchTimeout = 150 * time.Millisecond
				if len(extra) > 0 {
					// corpus and harvested patterns include the deliberately catastrophic ones of the timeout tests
					re.MatchTimeout = 15 * time.Millisecond
				}
				ad := compat.Wrap(re)
				for ii, input := range append(append([]string{}, tokenInputs...), extra...) {
					if (h+ii)%3 != 0 && ii > 1 && ii < len(tokenInputs) {
						continue
					}
					runes := []rune(input)
					guard("MatchString", input, opt, func() error { _, e := re.MatchString(input); return e }, nil, nil)
					guard("FindRunesMatch+FindNextMatch", input, opt, func() error {
						m, e := re.FindRunesMatch(runes)
						for n := 0; m != nil && e == nil && n < len(runes)+3; n++ {
							_ = m.String()
							for _, g := range m.Groups() {
								_ = g.String()
								g.ByteRange()
							}
							m, e = re.FindNextMatch(m)
						}
						return e
					}, nil, nil)
					guard("FindAllStringIndex", input, opt, func() error { _, e := re.FindAllStringIndex(input, -1); return e }, nil, nil)
					for _, st := range []int{-3, -1, 0, 1, len(input), len(input) + 1, len(input) + 50} {
						st := st
						onB := st >= 0 && st <= len(input) && (st == len(input) || st == 0 || func() bool {
							for i := range input { // the decoder's rune starts: an invalid byte is a rune of width 1
								if i == st {
									return true
								}
							}
							return false
						}())
						want := st > len(input) || (st >= 0 && st <= len(input) && !onB)
						guard(fmt.Sprintf("FindStringMatchStartingAt(%d)", st), input, opt, func() error { _, e := re.FindStringMatchStartingAt(input, st); return e }, &want, nil)
						wantR := st > len(runes)
						guard(fmt.Sprintf("FindRunesMatchStartingAt(%d)", st), input, opt, func() error { _, e := re.FindRunesMatchStartingAt(runes, st); return e }, &wantR, nil)
						for _, cnt := range []int{-2, -1, 0, 2} {
							cnt := cnt
							wantRep := cnt < -1 || (cnt != 0 && want)
							guard(fmt.Sprintf("Replace(%d,%d)", st, cnt), input, opt, func() error { _, e := re.Replace(input, "<$1$&${x}$>", st, cnt); return e }, &wantRep, isReplErr)
							guard(fmt.Sprintf("ReplaceFunc(%d,%d)", st, cnt), input, opt, func() error {
								_, e := re.ReplaceFunc(input, func(m regexp2.Match) string { return m.String() }, st, cnt)
								return e
							}, &wantRep, nil)
						}
					}
					for _, cnt := range []int{-2, -1, 0, 1, 3} {
						cnt := cnt
						want := cnt < -1
						guard(fmt.Sprintf("Split(%d)", cnt), input, opt, func() error { _, e := re.Split(input, cnt); return e }, &want, nil)
					}
					// the adapter panics only with a timeout / stack-limit error
					guard("compat.FindAllStringSubmatchIndex", input, opt, func() (err error) {
						defer func() {
							if p := recover(); p != nil {
								if e, ok := p.(error); ok && allowedErr(e) {
									err = nil
									return
								}
								panic(p)
							}
						}()
						ad.FindAllStringSubmatchIndex(input, -1)
						ad.FindAll([]byte(input), 2)
						ad.FindReaderIndex(strings.NewReader(input))
						ad.MatchString(input)
						return nil
					}, nil, nil)
				}
				_ = re.GetGroupNames()
				_ = re.GetGroupNumbers()
				// "any option combination" includes the resource options: the same pattern on a FRESH Regexp whose backtracking
				// stack is capped (the first scan of a new interpreter state allocates under the cap); the only new
				// outcome allowed is ErrBacktrackingStackLimit
				lim := []int{24, 40, 64, 100, 353, 1000}[(h+k)%6]
				for ii, input := range append(append([]string{}, tokenInputs[1:4]...), extra...) {
					if ii >= 6 {
						break
					}
					var lre *regexp2.Regexp
					var lerr error
					func() {
						defer func() {
							if p := recover(); p != nil {
								report(tokMismatch{"robust.panic", pat, fmt.Sprintf("%q", pat), int(opt), fmt.Sprintf("Compile(OptionMaxBacktrackingStackSize(%d))", lim), "", fmt.Sprint(p)})
							}
						}()
						lre, lerr = regexp2.Compile(pat, opt, regexp2.OptionMaxBacktrackingStackSize(lim))
					}()
					if lerr != nil || lre == nil {
						break
					}
					lre.MatchTimeout = 15 * time.Millisecond
					in := input
					guard(fmt.Sprintf("MatchString [stack limit %d]", lim), in, opt, func() error { _, e := lre.MatchString(in); return e }, nil, nil)
					guard(fmt.Sprintf("FindStringMatch [stack limit %d]", lim), in, opt, func() error { _, e := lre.FindStringMatch(in); return e }, nil, nil)
				}
			}
		}
		for i := 0; i < runtime.NumCPU(); i++ {
			wg.Add(1)
			go func() {
				defer wg.Done()
				for t := range work {
					runOne(t.toks, t.raw, t.extra)
				}
			}()
		}
		for sc.Scan() {
			p, ok := tlcPayload(sc.Text(), "T")
			if !ok {
				continue
			}
			var toks []int
			if err := json.Unmarshal([]byte(p), &toks); err != nil {
				fmt.Fprintln(os.Stderr, "bad T record", err)
				return 2
			}
			work <- job{toks: toks}
		}
		corpusFiles := 0
		if *corpus != "" {
			entries, err := os.ReadDir(*corpus)
			if err != nil {
				fmt.Fprintln(os.Stderr, err)
				return 2
			}
			for _, e := range entries {
				if e.IsDir() {
					continue
				}
				data, err := os.ReadFile(*corpus + "/" + e.Name())
				if err != nil || len(data) > 2000 {
					continue
				}
				corpusFiles++
				work <- job{raw: string(data), extra: derivedInputs(string(data))}
			}
		}
		harvested := 0
		if *harvest != "" {
			lits := harvestLiterals(*harvest)
			for i, l := range lits {
				// long pattern-like literals (the realistic patterns of the test-suite) are always taken
				always := len(l) >= 25 && (strings.Contains(l, "\\") || strings.Contains(l, "(?") || strings.Contains(l, "["))
				if !always && i%*hstride != *hoffset%*hstride {
					continue
				}
				// inputs: derived from the pattern itself, and the literals next to it in the same file (tests keep
				// a pattern and its subject strings together)
				extra := derivedInputs(l)
				for d := 1; d <= 3; d++ {
					if i+d < len(lits) && len(lits[i+d]) <= 200 {
						extra = append(extra, lits[i+d])
					}
				}
				harvested++
				work <- job{raw: l, extra: extra}
			}
		}
		close(work)
		wg.Wait()
		// re-run, one at a time, the patterns on which some call did not return in time
		confirming = true
		unreproduced := 0
		seen := map[string]bool{}
		for _, j := range suspects {
			key := fmt.Sprint(j.toks, j.raw)
			if seen[key] {
				continue
			}
			seen[key] = true
			before := len(mism)
			patterns-- // counted again by runOne
			runOne(j.toks, j.raw, j.extra)
			hung := false
			for _, m := range mism[before:] {
				if m.Rule == "robust.hang" {
					hung = true
				}
			}
			if !hung {
				unreproduced++
			}
		}
		if mism == nil {
			mism = []tokMismatch{}
		}
		out := map[string]any{"patterns": patterns, "compiled": compiled, "parse_errors": parseErrs, "calls": calls, "argument_errors_seen": argErrs, "mismatches": mism, "samples": samples, "ntokens": len(tokenAlphabet), "corpus_files": corpusFiles, "harvested": harvested, "slow_calls_not_reproduced": unreproduced}
		enc := json.NewEncoder(os.Stdout)
		enc.SetEscapeHTML(false)
		enc.Encode(out)
		return 0
	}
	commands["ntokens"] = func(args []string) int { fmt.Println(len(tokenAlphabet)); return 0 }
}

// derivedInputs builds subject strings out of the words of a pattern, so that inputs end exactly on, start with,
// or contain the literals the pattern's search strategies look for
func derivedInputs(pat string) []string {
	var words []string
	cur := []byte{}
	flush := func() {
		if len(cur) > 0 && len(cur) <= 8 && len(words) < 4 {
			words = append(words, string(cur))
		}
		cur = cur[:0]
	}
	for i := 0; i < len(pat); i++ {
		c := pat[i]
		alnum := c >= '0' && c <= '9' || c >= 'a' && c <= 'z' || c >= 'A' && c <= 'Z'
		if alnum && !(i > 0 && pat[i-1] == '\\' && len(cur) == 0) {
			cur = append(cur, c)
		} else {
			flush()
		}
	}
	flush()
	out := []string{}
	for _, w := range words {
		out = append(out, w, "ab12 "+w, "ab12"+w, "ab12 "+w+" ", w+"@x.yz", "a1 "+w+" b2 "+w)
	}
	if len(words) >= 2 {
		out = append(out, words[0]+words[1], "a1 "+words[0]+" b.c "+words[1]+" d")
	}
	if len(out) > 16 {
		out = out[:16]
	}
	return out
}

// harvestLiterals returns the string literals (unquoted, 1..300 bytes) of the *_test.go files of a module, in
// file order
func harvestLiterals(root string) []string {
	var out []string
	seen := map[string]bool{}
	for _, dir := range []string{"", "syntax", "compat", "helpers"} {
		entries, err := os.ReadDir(root + "/" + dir)
		if err != nil {
			continue
		}
		for _, e := range entries {
			if e.IsDir() || !strings.HasSuffix(e.Name(), "_test.go") {
				continue
			}
			fset := token.NewFileSet()
			f, err := goparser.ParseFile(fset, root+"/"+dir+"/"+e.Name(), nil, 0)
			if err != nil {
				continue
			}
			goast.Inspect(f, func(n goast.Node) bool {
				if bl, ok := n.(*goast.BasicLit); ok && bl.Kind == token.STRING {
					if v, err := strconv.Unquote(bl.Value); err == nil && len(v) >= 1 && len(v) <= 300 && !seen[v] {
						seen[v] = true
						out = append(out, v)
					}
				}
				return true
			})
		}
	}
	return out
}

------------------------------- MODULE API -------------------------------
(***************************************************************************)
(* The public entry points of regexp2 as functions of ONE search function. *)
(* Everything here is parameterised by F(start, prevLen): the result of a  *)
(* single search (None or [ok, idx, len, caps, next]); for patterns inside *)
(* the exact fragment F is RegexSem.Find, for other patterns F is looked   *)
(* up in the searches recorded from the real engine, and the laws below    *)
(* then state how every entry point must relate to those searches.         *)
(*                                                                         *)
(*  - UTF-8: Decode (each invalid byte = one rune U+FFFD of width 1),      *)
(*    rune index <-> byte index                                            *)
(*  - the FindNextMatch iteration, find-all (empty matches adjacent to the *)
(*    preceding match are dropped), Replace / ReplaceFunc / Split folds    *)
(*  - the replacement mini-language ($n ${n} ${name} $$ $& $` $' $+ $_)    *)
(***************************************************************************)
EXTENDS Integers, Sequences, FiniteSets, RegexSem

\* ---------------------------------------------------------------- UTF-8 (Go's decoding rules)
RuneError == 65533
Cont(x) == 128 <= x /\ x <= 191
InR(x, lo, hi) == lo <= x /\ x <= hi

\* <<rune, width>> of the encoding starting at byte k (1-based) of bs
DecodeAt(bs, k) ==
  LET n  == Len(bs)
      b0 == bs[k]
      B(j) == bs[k + j]
      bad == <<RuneError, 1>>
  IN
  IF b0 < 128 THEN <<b0, 1>>
  ELSE IF InR(b0, 194, 223) THEN
       (IF k + 1 <= n /\ Cont(B(1)) THEN <<(b0 - 192) * 64 + (B(1) - 128), 2>> ELSE bad)
  ELSE IF InR(b0, 224, 239) THEN
       (IF k + 2 <= n /\ Cont(B(2))
           /\ (IF b0 = 224 THEN InR(B(1), 160, 191) ELSE IF b0 = 237 THEN InR(B(1), 128, 159) ELSE Cont(B(1)))
        THEN <<(b0 - 224) * 4096 + (B(1) - 128) * 64 + (B(2) - 128), 3>> ELSE bad)
  ELSE IF InR(b0, 240, 244) THEN
       (IF k + 3 <= n /\ Cont(B(2)) /\ Cont(B(3))
           /\ (IF b0 = 240 THEN InR(B(1), 144, 191) ELSE IF b0 = 244 THEN InR(B(1), 128, 143) ELSE Cont(B(1)))
        THEN <<(b0 - 240) * 262144 + (B(1) - 128) * 4096 + (B(2) - 128) * 64 + (B(3) - 128), 4>> ELSE bad)
  ELSE bad

RECURSIVE DecodeFrom(_,_)
DecodeFrom(bs, k) == IF k > Len(bs) THEN <<>> ELSE LET d == DecodeAt(bs, k) IN <<d>> \o DecodeFrom(bs, k + d[2])
Decode(bs)  == DecodeFrom(bs, 1)                           \* sequence of <<rune, width>>
RunesOf(bs) == LET d == Decode(bs) IN [i \in 1..Len(d) |-> d[i][1]]
\* byte offset of rune index i (0..number of runes): prefix sums of the widths
ByteOffsets(bs) ==
  LET d == Decode(bs)
      RECURSIVE Off(_)
      Off(i) == IF i = 0 THEN 0 ELSE Off(i - 1) + d[i][2]
  IN [i \in 0..Len(d) |-> Off(i)]

Utf8Len(c) == IF c < 128 THEN 1 ELSE IF c < 2048 THEN 2 ELSE IF c < 65536 THEN 3 ELSE 4

\* ---------------------------------------------------------------- iteration
\* the FindNextMatch chain: at most n + 2 steps are ever taken (the bound is only a guard for the
\* specification's own evaluation; Advancing below is the property)
AllMatches(Srch(_,_), start, n) ==
  LET RECURSIVE Chain(_,_,_)
      Chain(m, fuel, acc) == IF ~m.ok \/ fuel = 0 THEN acc
                             ELSE Chain(Srch(m.next, m.len), fuel - 1, Append(acc, m))
  IN Chain(Srch(start, -1), n + 2, <<>>)

End(m) == m.idx + m.len

\* iteration laws of C07 over a sequence of matches
Advancing(M, rtl) ==
  \A k \in 1..(Len(M) - 1) :
     IF rtl THEN End(M[k + 1]) <= M[k].idx /\ (M[k + 1].len = 0 /\ M[k].len = 0 => M[k + 1].idx < M[k].idx)
     ELSE M[k + 1].idx >= End(M[k]) /\ (M[k + 1].len = 0 /\ M[k].len = 0 => M[k + 1].idx > M[k].idx)
NoRepeatedEmpty(M) ==
  \A j, k \in 1..Len(M) : j # k /\ M[j].len = 0 /\ M[k].len = 0 => M[j].idx # M[k].idx

\* find-all: the chain minus empty matches adjacent to the preceding match, truncated to n (n < 0: all)
RECURSIVE FindAllFrom(_,_,_,_,_)
FindAllFrom(M, k, edge, n, rtl) ==
  IF k > Len(M) \/ n = 0 THEN <<>>
  ELSE LET m == M[k]
           adjacent == m.len = 0 /\ edge >= 0 /\ m.idx = edge
       IN IF adjacent THEN FindAllFrom(M, k + 1, edge, n, rtl)
          ELSE <<m>> \o FindAllFrom(M, k + 1, IF rtl THEN m.idx ELSE End(m), IF n > 0 THEN n - 1 ELSE n, rtl)
FindAll(M, n, rtl) == FindAllFrom(M, 1, -1, n, rtl)

\* ---------------------------------------------------------------- well-formedness (C08)
CapOK(c, n) == 0 <= c[1] /\ 0 <= c[2] /\ c[1] + c[2] <= n
MatchWF(m, n) ==
  /\ 0 <= m.idx /\ 0 <= m.len /\ m.idx + m.len <= n
  /\ \A g \in 1..Len(m.caps) : \A j \in 1..Len(m.caps[g]) : CapOK(m.caps[g][j], n)

\* ---------------------------------------------------------------- replacement mini-language
\* tokens: [k |-> "lit", c] | [k |-> "grp", g] | [k |-> "left"|"right"|"last"|"whole"]
DOLLAR == 36
IsDigit(c) == 48 <= c /\ c <= 57
Lit(c)  == [k |-> "lit", c |-> c, g |-> 0]
Tok(kd) == [k |-> kd, c |-> 0, g |-> 0]
GrpT(g) == [k |-> "grp", c |-> 0, g |-> g]

\* end (exclusive index) of the run of characters satisfying P starting at k
RunEnd(r, k, P(_)) ==
  LET RECURSIVE Go(_)
      Go(x) == IF x <= Len(r) /\ P(r[x]) THEN Go(x + 1) ELSE x
  IN Go(k)
RECURSIVE DecVal(_,_,_,_)
DecVal(r, k, e, acc) == IF k >= e THEN acc ELSE DecVal(r, k + 1, e, acc * 10 + (r[k] - 48))

\* ParseRepl(r, slots, names, wordch): slots = set of existing group numbers (incl. 0),
\* names = function from group-name strings (as code point sequences) to numbers,
\* wordch(c) = may the character start / continue a group name
ParseRepl(r, slots, names, wordch(_)) ==
  LET n == Len(r)
      RECURSIVE P(_)
      P(k) ==
        IF k > n THEN <<>>
        ELSE IF r[k] # DOLLAR THEN <<Lit(r[k])>> \o P(k + 1)
        ELSE IF k = n THEN <<Lit(DOLLAR)>>
        ELSE
          LET angled == r[k + 1] = 123 /\ k + 2 <= n            \* '{' with at least one more character
              q  == IF angled THEN k + 2 ELSE k + 1            \* position of the character after $ or ${
              ch == r[q]
              literal == <<Lit(DOLLAR)>> \o P(k + 1)
          IN
          IF IsDigit(ch) THEN
             LET e == RunEnd(r, q, IsDigit)  v == DecVal(r, q, e, 0) IN
             IF ~angled THEN (IF v \in slots THEN <<GrpT(v)>> \o P(e) ELSE literal)
             ELSE (IF e <= n /\ r[e] = 125 /\ v \in slots THEN <<GrpT(v)>> \o P(e + 1) ELSE literal)
          ELSE IF angled /\ wordch(ch) THEN
             LET e == RunEnd(r, q, wordch)  nm == SubSeq(r, q, e - 1) IN
             IF e <= n /\ r[e] = 125 /\ nm \in DOMAIN names THEN <<GrpT(names[nm])>> \o P(e + 1) ELSE literal
          ELSE IF ~angled THEN
             CASE ch = DOLLAR -> <<Lit(DOLLAR)>> \o P(k + 2)
               [] ch = 38     -> <<GrpT(0)>> \o P(k + 2)          \* $&
               [] ch = 96     -> <<Tok("left")>> \o P(k + 2)      \* $`
               [] ch = 39     -> <<Tok("right")>> \o P(k + 2)     \* $'
               [] ch = 43     -> <<Tok("last")>> \o P(k + 2)      \* $+
               [] ch = 95     -> <<Tok("whole")>> \o P(k + 2)     \* $_
               [] OTHER       -> literal
          ELSE literal
  IN P(1)

\* text of group g in match m over input s (group 0 = the match); an unmatched group is empty
GroupText(m, s, g) ==
  IF g = 0 THEN SubSeq(s, m.idx + 1, m.idx + m.len)
  ELSE IF g > Len(m.caps) \/ m.caps[g] = <<>> THEN <<>>
  ELSE LET c == m.caps[g][Len(m.caps[g])] IN SubSeq(s, c[1] + 1, c[1] + c[2])

\* lastGroup = number of the group $+ designates
Expand(toks, m, s, lastGroup) ==
  LET RECURSIVE E(_)
      E(k) == IF k > Len(toks) THEN <<>>
              ELSE LET t == toks[k] IN
                   (CASE t.k = "lit"   -> <<t.c>>
                      [] t.k = "grp"   -> GroupText(m, s, t.g)
                      [] t.k = "left"  -> SubSeq(s, 1, m.idx)
                      [] t.k = "right" -> SubSeq(s, m.idx + m.len + 1, Len(s))
                      [] t.k = "last"  -> GroupText(m, s, lastGroup)
                      [] t.k = "whole" -> s) \o E(k + 1)
  IN E(1)

Take(M, count) == IF count < 0 \/ count >= Len(M) THEN M ELSE SubSeq(M, 1, count)

\* the input with each match of M (already truncated to count) replaced by sub(m); M is in scan order
ReplaceWith(M, s, rtl, sub(_)) ==
  LET RECURSIVE L(_,_)   \* left-to-right: k-th match, text copied up to prev
      L(k, prev) == IF k > Len(M) THEN SubSeq(s, prev + 1, Len(s))
                    ELSE SubSeq(s, prev + 1, M[k].idx) \o sub(M[k]) \o L(k + 1, End(M[k]))
      RECURSIVE R(_,_)   \* right-to-left: matches arrive from the right; build the text right of each
      R(k, prev) == IF k > Len(M) THEN SubSeq(s, 1, prev)
                    ELSE R(k + 1, M[k].idx) \o sub(M[k]) \o SubSeq(s, End(M[k]) + 1, prev)
  IN IF M = <<>> THEN s ELSE IF rtl THEN R(1, Len(s)) ELSE L(1, 0)

Rev(M) == [k \in 1..Len(M) |-> M[Len(M) + 1 - k]]

\* Split: pieces between the matches of M (ascending; truncated by the caller), interleaved with every group's
\* text.  For a right-to-left pattern the caller passes Rev of the first count matches in scan order.
SplitWith(M, s, ng) ==
  LET RECURSIVE S(_,_)
      S(k, prev) == IF k > Len(M) THEN <<SubSeq(s, prev + 1, Len(s))>>
                    ELSE <<SubSeq(s, prev + 1, M[k].idx)>> \o [g \in 1..ng |-> GroupText(M[k], s, g)] \o S(k + 1, End(M[k]))
  IN IF M = <<>> THEN <<s>> ELSE S(1, 0)
=============================================================================

----------------------------- MODULE CharClass -----------------------------
(***************************************************************************)
(* Character-class membership as set algebra (C16).                        *)
(* A class expression is a record                                          *)
(*   [rs    : sequence of <<lo,hi>> ranges (single characters: lo = hi),   *)
(*    cats  : sequence of [n, neg]   \p{n} / \P{n}  (category/script/prop),*)
(*    shs   : sequence of shorthand letters  d D w W s S,                  *)
(*    posix : sequence of [n, neg]   [:n:] / [:^n:]  (RE2 mode),           *)
(*    neg   : BOOLEAN  leading ^,                                          *)
(*    sub   : <<>> or <<class>>      -[...] subtraction]                   *)
(* evaluated under (ic, dia): IgnoreCase and the dialect net/re2/ecma.     *)
(*   InClass(r) = ((r in ranges \/ cats \/ shorthands \/ posix) # neg)     *)
(*                /\ ~InClass(r, sub)                                      *)
(* Under IgnoreCase every part that is a set of RANGES (written ranges,    *)
(* POSIX names and their complements, and - outside the default dialect -  *)
(* the shorthands, which RE2/ECMAScript define as ASCII ranges) denotes    *)
(* its closure under simple case folding: it contains r iff it contains a  *)
(* member of FoldSet(r) = the simple case-fold orbit of r (plus U+0130,    *)
(* whose lower case is i, for i and I).  Parts that are Unicode categories *)
(* (\p{..}, the default dialect's \d \w \s) are not folded, except that   *)
(* \p{Lu}, \p{Ll} and \p{Lt} each mean "cased letter" (Lu, Ll or Lt).      *)
(***************************************************************************)
EXTENDS Integers, Sequences, FiniteSets, Unicode

InRs(c, rs) == \E k \in 1..Len(rs) : rs[k][1] <= c /\ c <= rs[k][2]

AsciiW(c) == (48 <= c /\ c <= 57) \/ (65 <= c /\ c <= 90) \/ c = 95 \/ (97 <= c /\ c <= 122)
EcmaSpaceRs == << <<9,13>>, <<32,32>>, <<160,160>>, <<5760,5760>>, <<8192,8202>>, <<8232,8233>>, <<8239,8239>>,
                  <<8287,8287>>, <<12288,12288>>, <<65279,65279>> >>

ShIn(sh, c, dia) ==
  LET low == IF sh = "D" THEN "d" ELSE IF sh = "W" THEN "w" ELSE IF sh = "S" THEN "s" ELSE sh
      pos == CASE low = "d" -> IF dia = "net" THEN InU("Nd", c) ELSE (48 <= c /\ c <= 57)
               [] low = "w" -> IF dia = "net" THEN (IsWordU(c) \/ c = 8204 \/ c = 8205) ELSE AsciiW(c)
               [] low = "s" -> IF dia = "net" THEN IsSpaceU(c)
                               ELSE IF dia = "re2" THEN c \in {9, 10, 12, 13, 32}
                               ELSE InRs(c, EcmaSpaceRs)
  IN IF low = sh THEN pos ELSE ~pos

PosixRs(n) ==
  CASE n = "alnum"  -> << <<48,57>>, <<65,90>>, <<97,122>> >>
    [] n = "alpha"  -> << <<65,90>>, <<97,122>> >>
    [] n = "ascii"  -> << <<0,127>> >>
    [] n = "blank"  -> << <<9,9>>, <<32,32>> >>
    [] n = "cntrl"  -> << <<0,31>>, <<127,127>> >>
    [] n = "digit"  -> << <<48,57>> >>
    [] n = "graph"  -> << <<33,126>> >>
    [] n = "lower"  -> << <<97,122>> >>
    [] n = "print"  -> << <<32,126>> >>
    [] n = "punct"  -> << <<33,47>>, <<58,64>>, <<91,96>>, <<123,126>> >>
    [] n = "space"  -> << <<9,13>>, <<32,32>> >>
    [] n = "upper"  -> << <<65,90>> >>
    [] n = "word"   -> << <<48,57>>, <<65,90>>, <<95,95>>, <<97,122>> >>
    [] n = "xdigit" -> << <<48,57>>, <<65,70>>, <<97,102>> >>

\* under IgnoreCase the three cased-letter categories each denote all cased letters (documented .NET behaviour);
\* every other category, script or property is taken as written
CatIn(n, c, ic) == IF ic /\ n \in {"Lu", "Ll", "Lt"} THEN InU("Lu", c) \/ InU("Ll", c) \/ InU("Lt", c) ELSE InU(n, c)

RECURSIVE InClass(_,_,_,_)
InClass(c, cls, ic, dia) ==
  LET F == IF ic THEN FoldSet(c) ELSE {c}
      base == \/ \E e \in F : InRs(e, cls.rs)
              \/ \E k \in 1..Len(cls.cats)  : CatIn(cls.cats[k].n, c, ic) # cls.cats[k].neg
              \/ \E k \in 1..Len(cls.shs)   : IF dia = "net" THEN ShIn(cls.shs[k], c, dia)
                                                ELSE \E e \in F : ShIn(cls.shs[k], e, dia)
              \/ \E k \in 1..Len(cls.posix) : \E e \in F : InRs(e, PosixRs(cls.posix[k].n)) # cls.posix[k].neg
  IN (base # cls.neg) /\ (cls.sub = <<>> \/ ~InClass(c, cls.sub[1], ic, dia))

\* every code point at which the membership function of the class can change value
RECURSIVE Breaks(_,_)
Breaks(cls, dia) ==
  LET ends(rs) == UNION {{rs[k][1], rs[k][2]} : k \in 1..Len(rs)}
      tabs == {cls.cats[k].n : k \in 1..Len(cls.cats)}
              \cup (IF \E k \in 1..Len(cls.cats) : cls.cats[k].n \in {"Lu", "Ll", "Lt"} THEN {"Lu", "Ll", "Lt"} ELSE {})
              \cup (IF dia = "net" /\ (\E k \in 1..Len(cls.shs) : cls.shs[k] \in {"d", "D"}) THEN {"Nd"} ELSE {})
              \cup (IF dia = "net" /\ (\E k \in 1..Len(cls.shs) : cls.shs[k] \in {"w", "W"}) THEN {"L", "Mn", "Nd", "Pc"} ELSE {})
              \cup (IF dia = "net" /\ (\E k \in 1..Len(cls.shs) : cls.shs[k] \in {"s", "S"}) THEN {"IsSpace"} ELSE {})
  IN ends(cls.rs) \cup UNION {ends(UTab[t]) : t \in tabs}
     \cup (IF cls.shs # <<>> THEN {9, 13, 32, 48, 57, 65, 90, 95, 97, 122, 160, 8204, 8205} \cup ends(EcmaSpaceRs) ELSE {})
     \cup UNION {ends(PosixRs(cls.posix[k].n)) : k \in 1..Len(cls.posix)}
     \cup (IF cls.sub = <<>> THEN {} ELSE Breaks(cls.sub[1], dia))
=============================================================================

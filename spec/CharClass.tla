----------------------------- MODULE CharClass -----------------------------
(***************************************************************************)
(* Character-class membership as set algebra (C16).                        *)
(* A class expression is a record                                          *)
(*   [rs    : sequence of <<lo,hi>> ranges (single characters: lo = hi),   *)
(*    cats  : sequence of [n, neg]   \p{n} / \P{n}  (category/script/prop),*)
(*    shs   : sequence of shorthand letters  d D w W s S,                  *)
(*    posix : sequence of [n, neg]   [:n:] / [:^n:]  (RE2 mode),           *)
(*    neg   : BOOLEAN  leading ^,                                          *)
(*    sub   : <<>> or <<class>>      -[...] subtraction]                   *)
(* evaluated under (ic, dia): IgnoreCase and the dialect net/re2/ecma.     *)
(*   InClass(r) = ((r in ranges \/ cats \/ shorthands \/ posix) # neg)     *)
(*                /\ ~InClass(r, sub)                                      *)
(* Under IgnoreCase a range contains r iff it contains r or one of its     *)
(* simple case images (the domain is restricted by the caller to where     *)
(* case folding has one agreed meaning).                                   *)
(***************************************************************************)
EXTENDS Integers, Sequences, FiniteSets, Unicode

InRs(c, rs) == \E k \in 1..Len(rs) : rs[k][1] <= c /\ c <= rs[k][2]

AsciiW(c) == (48 <= c /\ c <= 57) \/ (65 <= c /\ c <= 90) \/ c = 95 \/ (97 <= c /\ c <= 122)
EcmaSpaceRs == << <<9,13>>, <<32,32>>, <<160,160>>, <<5760,5760>>, <<8192,8202>>, <<8232,8233>>, <<8239,8239>>,
                  <<8287,8287>>, <<12288,12288>>, <<65279,65279>> >>

ShIn(sh, c, dia) ==
  LET low == IF sh = "D" THEN "d" ELSE IF sh = "W" THEN "w" ELSE IF sh = "S" THEN "s" ELSE sh
      pos == CASE low = "d" -> IF dia = "net" THEN InU("Nd", c) ELSE (48 <= c /\ c <= 57)
               [] low = "w" -> IF dia = "net" THEN (IsWordU(c) \/ c = 8204 \/ c = 8205) ELSE AsciiW(c)
               [] low = "s" -> IF dia = "net" THEN IsSpaceU(c)
                               ELSE IF dia = "re2" THEN c \in {9, 10, 12, 13, 32}
                               ELSE InRs(c, EcmaSpaceRs)
  IN IF low = sh THEN pos ELSE ~pos

PosixRs(n) ==
  CASE n = "alnum"  -> << <<48,57>>, <<65,90>>, <<97,122>> >>
    [] n = "alpha"  -> << <<65,90>>, <<97,122>> >>
    [] n = "ascii"  -> << <<0,127>> >>
    [] n = "blank"  -> << <<9,9>>, <<32,32>> >>
    [] n = "cntrl"  -> << <<0,31>>, <<127,127>> >>
    [] n = "digit"  -> << <<48,57>> >>
    [] n = "graph"  -> << <<33,126>> >>
    [] n = "lower"  -> << <<97,122>> >>
    [] n = "print"  -> << <<32,126>> >>
    [] n = "punct"  -> << <<33,47>>, <<58,64>>, <<91,96>>, <<123,126>> >>
    [] n = "space"  -> << <<9,13>>, <<32,32>> >>
    [] n = "upper"  -> << <<65,90>> >>
    [] n = "word"   -> << <<48,57>>, <<65,90>>, <<95,95>>, <<97,122>> >>
    [] n = "xdigit" -> << <<48,57>>, <<65,70>>, <<97,102>> >>

RECURSIVE InClass(_,_,_,_)
InClass(c, cls, ic, dia) ==
  LET inr(x) == InRs(x, cls.rs)
      base == \/ (IF ic THEN inr(c) \/ inr(ToLower(c)) \/ inr(ToUpper(c)) ELSE inr(c))
              \/ \E k \in 1..Len(cls.cats)  : InU(cls.cats[k].n, c) # cls.cats[k].neg
              \/ \E k \in 1..Len(cls.shs)   : ShIn(cls.shs[k], c, dia)
              \/ \E k \in 1..Len(cls.posix) :
                   LET hit == IF ic THEN InRs(c, PosixRs(cls.posix[k].n)) \/ InRs(ToLower(c), PosixRs(cls.posix[k].n)) \/ InRs(ToUpper(c), PosixRs(cls.posix[k].n))
                              ELSE InRs(c, PosixRs(cls.posix[k].n))
                   IN hit # cls.posix[k].neg
  IN (base # cls.neg) /\ (cls.sub = <<>> \/ ~InClass(c, cls.sub[1], ic, dia))

\* every code point at which the membership function of the class can change value
RECURSIVE Breaks(_,_)
Breaks(cls, dia) ==
  LET ends(rs) == UNION {{rs[k][1], rs[k][2]} : k \in 1..Len(rs)}
      tabs == {cls.cats[k].n : k \in 1..Len(cls.cats)}
              \cup (IF dia = "net" /\ (\E k \in 1..Len(cls.shs) : cls.shs[k] \in {"d", "D"}) THEN {"Nd"} ELSE {})
              \cup (IF dia = "net" /\ (\E k \in 1..Len(cls.shs) : cls.shs[k] \in {"w", "W"}) THEN {"L", "Mn", "Nd", "Pc"} ELSE {})
              \cup (IF dia = "net" /\ (\E k \in 1..Len(cls.shs) : cls.shs[k] \in {"s", "S"}) THEN {"IsSpace"} ELSE {})
  IN ends(cls.rs) \cup UNION {ends(UTab[t]) : t \in tabs}
     \cup (IF cls.shs # <<>> THEN {9, 13, 32, 48, 57, 65, 90, 95, 97, 122, 160, 8204, 8205} \cup ends(EcmaSpaceRs) ELSE {})
     \cup UNION {ends(PosixRs(cls.posix[k].n)) : k \in 1..Len(cls.posix)}
     \cup (IF cls.sub = <<>> THEN {} ELSE Breaks(cls.sub[1], dia))
=============================================================================

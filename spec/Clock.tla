------------------------------- MODULE Clock -------------------------------
(***************************************************************************)
(* The timeout clock of regexp2 (fastclock.go) as a state machine (C14).   *)
(*                                                                         *)
(* Shared state: current, clockEnd (the two atomics, in ticks since        *)
(* `start`), started/start, running, the mutex mu, the number of clock     *)
(* goroutines.  Real time `now` advances by Tick; a sleeping process is    *)
(* woken before time passes its wake-up tick (urgency), which models a     *)
(* scheduler that is late by less than one tick.                           *)
(*                                                                         *)
(* Processes, one action per step of the code:                             *)
(*  caller c (a timed match): makeDeadline = m1 read current; m2 compare   *)
(*    with clockEnd; m3 lock; m4 refresh a stale clock; m5 unlock;         *)
(*    extendClock = e1 lock; e2 set start / extend clockEnd / start the    *)
(*    clock goroutine; e3 unlock; then `wait`: the match runs until it     *)
(*    finishes (Finish; never for a catastrophic match) or observes        *)
(*    current >= deadline (Timeout).                                       *)
(*  the clock goroutine (runClock): t0 lock; t1 test current <= clockEnd:  *)
(*    unlock and sleep one period / set running := FALSE and exit;         *)
(*    t2 (after the sleep) lock and store the time.                        *)
(*  the stopper (StopTimeoutClock): s1 lock; s2 clockEnd := 0 if running;  *)
(*    unlock; s3 poll running every half period until it is FALSE.         *)
(***************************************************************************)
EXTENDS Integers, Sequences, FiniteSets, TLC

CONSTANTS Callers,      \* set of caller ids (positive integers)
          Timeouts,     \* function caller -> timeout in ticks
          Catastrophic, \* set of callers whose match never finishes by itself
          MaxCalls,     \* timed matches per caller
          P,            \* clock period in ticks
          S,            \* slop added to clockEnd ("one second") in ticks
          MaxTime,      \* bound on real time
          WithStop,     \* does a StopTimeoutClock call happen?
          Variant       \* "asfound": makeDeadline as found (reads current, then clockEnd; keeps the first `end` unless it
                        \*            refreshed a stopped clock itself);  "fixed": reads clockEnd first, and recomputes
                        \*            `end` from the (refreshed or live) clock whenever it takes the slow path

TICKER == 100
STOPPER == 200

Fixed == Variant \in {"fixed", "noguard"}   \* makeDeadline as repaired

VARIABLES now, current, clockEnd, started, start, running, mu, nClocks,
          tpc, twake,               \* clock goroutine: program counter, wake-up time
          cpc, cend, cce, ct0, ccalls, cfired,   \* per caller: pc, deadline, clockEnd as read, call time, calls made, timed-out flag
          spc, swake                \* stopper
vars == <<now, current, clockEnd, started, start, running, mu, nClocks, tpc, twake, cpc, cend, cce, ct0, ccalls, cfired, spc, swake>>

Elapsed == now - start

Init == /\ now = 0 /\ current = 0 /\ clockEnd = 0 /\ started = FALSE /\ start = 0 /\ running = FALSE
        /\ mu = 0 /\ nClocks = 0 /\ tpc = "none" /\ twake = 0
        /\ cpc = [c \in Callers |-> "idle"] /\ cend = [c \in Callers |-> 0] /\ cce = [c \in Callers |-> 0] /\ ct0 = [c \in Callers |-> 0]
        /\ ccalls = [c \in Callers |-> 0] /\ cfired = [c \in Callers |-> FALSE]
        /\ spc = (IF WithStop THEN "idle" ELSE "done") /\ swake = 0

\* ---------------------------------------------------------------- callers
Begin(c) == /\ cpc[c] = "idle" /\ ccalls[c] < MaxCalls
            /\ cpc' = [cpc EXCEPT ![c] = IF Fixed THEN "m0" ELSE "m1"] /\ ccalls' = [ccalls EXCEPT ![c] = @ + 1]
            /\ ct0' = [ct0 EXCEPT ![c] = now] /\ cfired' = [cfired EXCEPT ![c] = FALSE]
            /\ UNCHANGED <<now, current, clockEnd, started, start, running, mu, nClocks, tpc, twake, cend, cce, spc, swake>>

\* fixed variant: clockEnd is read BEFORE current
M0(c) == /\ cpc[c] = "m0"
         /\ cce' = [cce EXCEPT ![c] = clockEnd]
         /\ cpc' = [cpc EXCEPT ![c] = "m1"]
         /\ UNCHANGED <<now, current, clockEnd, started, start, running, mu, nClocks, tpc, twake, cend, ct0, ccalls, cfired, spc, swake>>

M1(c) == /\ cpc[c] = "m1"
         /\ cend' = [cend EXCEPT ![c] = current + Timeouts[c] + P]
         /\ cpc' = [cpc EXCEPT ![c] = "m2"]
         /\ UNCHANGED <<now, current, clockEnd, started, start, running, mu, nClocks, tpc, twake, cce, ct0, ccalls, cfired, spc, swake>>

M2(c) == /\ cpc[c] = "m2"
         /\ cpc' = [cpc EXCEPT ![c] = IF cend[c] > (IF Fixed THEN cce[c] ELSE clockEnd) THEN "m3" ELSE "wait"]
         /\ UNCHANGED <<now, current, clockEnd, started, start, running, mu, nClocks, tpc, twake, cend, cce, ct0, ccalls, cfired, spc, swake>>

Lock(c, from, to) == /\ cpc[c] = from /\ mu = 0 /\ mu' = c /\ cpc' = [cpc EXCEPT ![c] = to]
Unlock(c, from, to) == /\ cpc[c] = from /\ mu = c /\ mu' = 0 /\ cpc' = [cpc EXCEPT ![c] = to]

M3(c) == /\ Lock(c, "m3", "m4")
         /\ UNCHANGED <<now, current, clockEnd, started, start, running, nClocks, tpc, twake, cend, cce, ct0, ccalls, cfired, spc, swake>>

M4(c) == /\ cpc[c] = "m4"
         /\ IF ~running /\ started
            THEN current' = Elapsed /\ cend' = [cend EXCEPT ![c] = Elapsed + Timeouts[c] + P]
            ELSE IF Fixed
                 THEN cend' = [cend EXCEPT ![c] = current + Timeouts[c] + P] /\ UNCHANGED current
                 ELSE UNCHANGED <<current, cend>>
         /\ cpc' = [cpc EXCEPT ![c] = "m5"]
         /\ UNCHANGED <<now, clockEnd, started, start, running, mu, nClocks, tpc, twake, cce, ct0, ccalls, cfired, spc, swake>>

M5(c) == /\ Unlock(c, "m5", "e1")
         /\ UNCHANGED <<now, current, clockEnd, started, start, running, nClocks, tpc, twake, cend, cce, ct0, ccalls, cfired, spc, swake>>

E1(c) == /\ Lock(c, "e1", "e2")
         /\ UNCHANGED <<now, current, clockEnd, started, start, running, nClocks, tpc, twake, cend, cce, ct0, ccalls, cfired, spc, swake>>

E2(c) == /\ cpc[c] = "e2"
         /\ IF ~started THEN started' = TRUE /\ start' = now ELSE UNCHANGED <<started, start>>
         \* clockEnd never moves backwards ("noguard": the variant without that test, kept to show what it is needed for)
         /\ clockEnd' = IF Variant = "noguard" \/ cend[c] + S > clockEnd THEN cend[c] + S ELSE clockEnd
         /\ IF ~running
            THEN /\ running' = TRUE /\ nClocks' = nClocks + 1 /\ tpc' = "t0"     \* go runClock()
                 \* fixed variant: a clock that is (re)started is first set to the current time
                 /\ current' = IF Fixed THEN (IF started THEN Elapsed ELSE 0) ELSE current
            ELSE UNCHANGED <<running, nClocks, tpc, current>>
         /\ cpc' = [cpc EXCEPT ![c] = "e3"]
         /\ UNCHANGED <<now, mu, twake, cend, cce, ct0, ccalls, cfired, spc, swake>>

E3(c) == /\ Unlock(c, "e3", "wait")
         /\ UNCHANGED <<now, current, clockEnd, started, start, running, nClocks, tpc, twake, cend, cce, ct0, ccalls, cfired, spc, swake>>

\* the match observes its deadline (CheckTimeout: current >= deadline)
Timeout(c) == /\ cpc[c] = "wait" /\ current >= cend[c]
              /\ cfired' = [cfired EXCEPT ![c] = TRUE] /\ cpc' = [cpc EXCEPT ![c] = "idle"]
              /\ UNCHANGED <<now, current, clockEnd, started, start, running, mu, nClocks, tpc, twake, cend, cce, ct0, ccalls, spc, swake>>

\* the match finishes by itself before observing the deadline
Finish(c) == /\ cpc[c] = "wait" /\ c \notin Catastrophic /\ current < cend[c]
             /\ cpc' = [cpc EXCEPT ![c] = "idle"]
             /\ UNCHANGED <<now, current, clockEnd, started, start, running, mu, nClocks, tpc, twake, cend, cce, ct0, ccalls, cfired, spc, swake>>

\* ---------------------------------------------------------------- the clock goroutine
T0 == /\ tpc = "t0" /\ mu = 0 /\ mu' = TICKER /\ tpc' = "t1"
      /\ UNCHANGED <<now, current, clockEnd, started, start, running, nClocks, twake, cpc, cend, cce, ct0, ccalls, cfired, spc, swake>>

T1 == /\ tpc = "t1" /\ mu = TICKER
      /\ IF current <= clockEnd
         THEN tpc' = "sleep" /\ twake' = now + P /\ UNCHANGED <<running, nClocks>>
         ELSE tpc' = "none" /\ running' = FALSE /\ nClocks' = nClocks - 1 /\ UNCHANGED twake
      /\ mu' = 0
      /\ UNCHANGED <<now, current, clockEnd, started, start, cpc, cend, cce, ct0, ccalls, cfired, spc, swake>>

TWake == /\ tpc = "sleep" /\ now >= twake /\ mu = 0 /\ mu' = TICKER /\ tpc' = "t2"
         /\ UNCHANGED <<now, current, clockEnd, started, start, running, nClocks, twake, cpc, cend, cce, ct0, ccalls, cfired, spc, swake>>

T2 == /\ tpc = "t2" /\ mu = TICKER /\ current' = Elapsed /\ tpc' = "t1"
      /\ UNCHANGED <<now, clockEnd, started, start, running, mu, nClocks, twake, cpc, cend, cce, ct0, ccalls, cfired, spc, swake>>

\* ---------------------------------------------------------------- StopTimeoutClock
S0 == /\ spc = "idle" /\ spc' = "s1"
      /\ UNCHANGED <<now, current, clockEnd, started, start, running, mu, nClocks, tpc, twake, cpc, cend, cce, ct0, ccalls, cfired, swake>>
S1 == /\ spc = "s1" /\ mu = 0 /\ mu' = STOPPER /\ spc' = "s2"
      /\ UNCHANGED <<now, current, clockEnd, started, start, running, nClocks, tpc, twake, cpc, cend, cce, ct0, ccalls, cfired, swake>>
S2 == /\ spc = "s2" /\ mu = STOPPER
      /\ clockEnd' = IF running THEN 0 ELSE clockEnd
      /\ mu' = 0 /\ spc' = "s3" /\ swake' = now + 1
      /\ UNCHANGED <<now, current, started, start, running, nClocks, tpc, twake, cpc, cend, cce, ct0, ccalls, cfired>>
S3 == /\ spc = "s3" /\ now >= swake /\ mu = 0            \* lock; read running; unlock - one atomic observation
      /\ IF running THEN swake' = now + 1 /\ spc' = "s3" ELSE spc' = "done" /\ UNCHANGED swake
      /\ UNCHANGED <<now, current, clockEnd, started, start, running, mu, nClocks, tpc, twake, cpc, cend, cce, ct0, ccalls, cfired>>

\* ---------------------------------------------------------------- time
\* time does not pass a pending wake-up (a sleeper is scheduled within its tick), and critical sections are
\* short compared with a tick: no time passes while the mutex is held
Tick == /\ now < MaxTime
        /\ mu = 0
        /\ tpc # "t0"                             \* a started goroutine gets going within its tick
        /\ ~(tpc = "sleep" /\ twake <= now)
        /\ ~(spc = "s3" /\ swake <= now)
        /\ now' = now + 1
        /\ UNCHANGED <<current, clockEnd, started, start, running, mu, nClocks, tpc, twake, cpc, cend, cce, ct0, ccalls, cfired, spc, swake>>

CallerStep(c) == Begin(c) \/ M0(c) \/ M1(c) \/ M2(c) \/ M3(c) \/ M4(c) \/ M5(c) \/ E1(c) \/ E2(c) \/ E3(c) \/ Timeout(c) \/ Finish(c)
Next == (\E c \in Callers : CallerStep(c)) \/ T0 \/ T1 \/ TWake \/ T2 \/ S0 \/ S1 \/ S2 \/ S3 \/ Tick
Spec == Init /\ [][Next]_vars

\* ---------------------------------------------------------------- properties
TypeOK == /\ nClocks \in 0..2 /\ mu \in {0, TICKER, STOPPER} \cup Callers
AtMostOneClock == nClocks <= 1
RunningIffClock == running = (nClocks = 1)
ClockNeverAhead == started => current <= Elapsed

\* a timeout is never observed before (roughly) the timeout has elapsed since the call: one period of slack for
\* the granularity of `current`
NoEarlyTimeout == \A c \in Callers : cfired[c] => now - ct0[c] >= Timeouts[c] - P

\* every waiting match has a clock that will reach its deadline: the clock is running and covers the deadline,
\* or some other call is in the middle of (re)starting it
Starting == \E c \in Callers : cpc[c] \in {"m0", "m1", "m2", "m3", "m4", "m5", "e1", "e2"}
LiveDeadlineHasClock ==
  \A c \in Callers : cpc[c] = "wait" /\ current < cend[c] => (running /\ clockEnd >= cend[c]) \/ Starting

\* the clock goroutine exits when nothing needs it: it is never running with current far beyond clockEnd
ClockStopsWhenDue == running /\ tpc = "sleep" => current <= clockEnd
=============================================================================

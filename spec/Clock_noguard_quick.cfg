SPECIFICATION Spec
CONSTANTS
  Callers <- MCCallers
  Timeouts <- MCTimeouts
  Catastrophic <- MCCatastrophic
  MaxCalls = 2
  P = 1
  S = 1
  MaxTime = 8
  WithStop = FALSE
  Variant = "noguard"
INVARIANTS TypeOK AtMostOneClock RunningIffClock ClockNeverAhead NoEarlyTimeout LiveDeadlineHasClock ClockStopsWhenDue
CHECK_DEADLOCK FALSE

SPECIFICATION Spec
CONSTANTS
  Callers <- MCCallers
  Timeouts <- MCTimeouts
  Catastrophic <- MCCatastrophic
  MaxCalls = 2
  P = 1
  S = 2
  MaxTime = 8
  WithStop = FALSE
  Variant = "fixed"
INVARIANTS TypeOK AtMostOneClock RunningIffClock ClockNeverAhead NoEarlyTimeout LiveDeadlineHasClock ClockStopsWhenDue
CHECK_DEADLOCK FALSE

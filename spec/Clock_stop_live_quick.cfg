SPECIFICATION Spec
CONSTANTS
  Callers <- MCCallers
  Timeouts <- MCTimeouts
  Catastrophic <- MCCatastrophic
  MaxCalls = 2
  P = 1
  S = 2
  MaxTime = 8
  WithStop = TRUE
  Variant = "fixed"
INVARIANTS LiveDeadlineHasClock
CHECK_DEADLOCK FALSE

------------------------------- MODULE Escape -------------------------------
(***************************************************************************)
(* The MEANING of escaped text (C19) - not one particular encoding: the    *)
(* literal string denoted by a pattern fragment that consists only of      *)
(* literal characters and character escapes.                               *)
(*   \xHH  \x{H..}  \uHHHH  \a \e \f \n \r \t \v   \ + non-word character  *)
(***************************************************************************)
EXTENDS Integers, Sequences, FiniteSets, Unicode

BS == 92
HexVal(c) == IF 48 <= c /\ c <= 57 THEN c - 48 ELSE IF 97 <= c /\ c <= 102 THEN c - 87 ELSE IF 65 <= c /\ c <= 70 THEN c - 55 ELSE -1
IsHex(c) == HexVal(c) >= 0
IsWordC(c) == IF c < 128 THEN ((48 <= c /\ c <= 57) \/ (65 <= c /\ c <= 90) \/ c = 95 \/ (97 <= c /\ c <= 122))
              ELSE (IsWordU(c) \/ c = 8204 \/ c = 8205)

Bad == <<-1>>

\* Meaning(e) = the literal string, or Bad if e is not purely literal / is malformed
Meaning(e) ==
  LET n == Len(e)
      RECURSIVE Hex(_,_,_)
      Hex(k, cnt, acc) == IF cnt = 0 THEN acc ELSE IF k > n \/ ~IsHex(e[k]) THEN -1 ELSE Hex(k + 1, cnt - 1, acc * 16 + HexVal(e[k]))
      RECURSIVE Brace(_,_)
      Brace(k, acc) == IF k > n THEN <<-1, k>> ELSE IF e[k] = 125 THEN <<acc, k + 1>>
                       ELSE IF ~IsHex(e[k]) THEN <<-1, k>> ELSE Brace(k + 1, acc * 16 + HexVal(e[k]))
      RECURSIVE P(_)
      P(k) ==
        IF k > n THEN <<>>
        ELSE IF e[k] # BS THEN <<e[k]>> \o P(k + 1)
        ELSE IF k = n THEN Bad
        ELSE LET c == e[k + 1] IN
          CASE c = 120 /\ k + 2 <= n /\ e[k + 2] = 123 ->
                  LET b == Brace(k + 3, 0) IN IF b[1] < 0 THEN Bad ELSE <<b[1]>> \o P(b[2])
            [] c = 120 -> LET v == Hex(k + 2, 2, 0) IN IF v < 0 THEN Bad ELSE <<v>> \o P(k + 4)
            [] c = 117 -> LET v == Hex(k + 2, 4, 0) IN IF v < 0 THEN Bad ELSE <<v>> \o P(k + 6)
            [] c = 97  -> <<7>> \o P(k + 2)
            [] c = 101 -> <<27>> \o P(k + 2)
            [] c = 102 -> <<12>> \o P(k + 2)
            [] c = 110 -> <<10>> \o P(k + 2)
            [] c = 114 -> <<13>> \o P(k + 2)
            [] c = 116 -> <<9>> \o P(k + 2)
            [] c = 118 -> <<11>> \o P(k + 2)
            [] OTHER   -> IF IsWordC(c) THEN Bad ELSE <<c>> \o P(k + 2)
      r == P(1)
  IN IF \E k \in 1..Len(r) : r[k] = -1 THEN Bad ELSE r

\* characters with a meaning of their own in a pattern (also under IgnorePatternWhitespace): an escaped
\* literal must not leave any of them bare
MetaChars == {92, 46, 43, 42, 63, 40, 41, 124, 91, 93, 123, 125, 94, 36, 35, 32, 9, 10, 11, 12, 13}
NoBareMeta(e) ==
  \A k \in 1..Len(e) : e[k] \in MetaChars \ {92} => (k > 1 /\ e[k - 1] = BS /\ (k = 2 \/ e[k - 2] # BS \/ (k > 3 /\ e[k - 3] = BS)))
=============================================================================

------------------------------- MODULE Facts -------------------------------
(***************************************************************************)
(* What each compile-time fact published for a pattern MEANS: a predicate  *)
(* over (input s, attempt position pos, end of the match e) that must hold *)
(* at every position at which the pattern really matches (C04).  The facts *)
(* are exported from the real compiler (FindOptimizations, FcPrefix,       *)
(* BmPrefix, Anchors); sets arrive as their member lists over the test     *)
(* alphabet.                                                               *)
(***************************************************************************)
EXTENDS Integers, Sequences, FiniteSets, Unicode

In(c, members) == \E k \in 1..Len(members) : members[k] = c

StartsWith(s, pos, w, ic) ==
  pos + Len(w) <= Len(s) /\ \A k \in 1..Len(w) : IF ic THEN ToLower(s[pos + k]) = ToLower(w[k]) ELSE s[pos + k] = w[k]
EndsWith(s, pos, w, ic) ==
  pos - Len(w) >= 0 /\ \A k \in 1..Len(w) : IF ic THEN ToLower(s[pos - Len(w) + k]) = ToLower(w[k]) ELSE s[pos - Len(w) + k] = w[k]

AnchorAt(name, s, pos) ==
  LET n == Len(s) IN
  CASE name = "Beginning" -> pos = 0
    [] name = "Bol"       -> pos = 0 \/ s[pos] = 10
    [] name = "End"       -> pos = n
    [] name = "EndZ"      -> pos = n \/ (pos = n - 1 /\ s[n] = 10)
    [] name = "Eol"       -> pos = n \/ s[pos + 1] = 10
    [] OTHER              -> TRUE       \* Start (depends on the scan origin), boundaries: not positional facts

\* one alternative of a landmark with its core at q: <<ok, start including leading whitespace>>
AltAt(a, s, q) ==
  LET n == Len(s)
      coreOK == IF a.isset THEN q + a.min <= n /\ \A k \in 1..a.min : In(s[q + k], a.set)
                ELSE StartsWith(s, q, a.lit, FALSE)
      before == ~a.reqb \/ (q > 0 /\ In(s[q], a.wsb))
  IN coreOK /\ before

MinLenOf(lm) == LET lens == {IF lm[k].isset THEN lm[k].min ELSE Len(lm[k].lit) : k \in 1..Len(lm)} IN
                CHOOSE m \in lens : \A x \in lens : m <= x

\* the landmark chain as a NECESSARY condition of a match starting at pos: a first landmark at or after
\* pos reachable through loop-set (or its own leading whitespace) characters, then every later landmark
\* somewhere after the earliest end of the previous one
ChainHolds(ch, s, pos) ==
  LET n == Len(s)
      N == Len(ch.lms)
      LmAt(i, q) == \E k \in 1..Len(ch.lms[i]) : AltAt(ch.lms[i][k], s, q)
      RECURSIVE Rest(_,_)
      Rest(i, from) == i > N \/ \E q \in from..n : LmAt(i, q) /\ Rest(i + 1, q + MinLenOf(ch.lms[i]))
      \* characters between pos and the core of the first landmark: loop-set members, or leading whitespace of an alternative
      reach(q) == \A k \in (pos + 1)..q : In(s[k], ch.loop) \/ \E a \in 1..Len(ch.lms[1]) : In(s[k], ch.lms[1][a].wsb)
  IN \E q0 \in pos..n : LmAt(1, q0) /\ reach(q0) /\ Rest(2, q0 + MinLenOf(ch.lms[1]))

\* left-to-right pattern: match from pos to e
FactsHoldLTR(f, s, pos, e) ==
  LET n == Len(s)  L == e - pos IN
  [ minlen   |-> f.minlen <= n - pos,     \* "the minimum length an input need be to match": remaining input, not match length
    maxlen   |-> f.maxlen < 0 \/ L <= f.maxlen,
    lead     |-> f.lead = "" \/ AnchorAt(f.lead, s, pos),
    trail    |-> f.trail = "" \/ AnchorAt(f.trail, s, e),
    prefix   |-> f.prefix = <<>> \/ StartsWith(s, pos, f.prefix, f.prefixic),
    prefixes |-> f.prefixes = <<>> \/ \E k \in 1..Len(f.prefixes) : StartsWith(s, pos, f.prefixes[k], f.prefixesic),
    fdlit    |-> CASE f.fdkind = "char"   -> pos + f.fddist < n /\ s[pos + f.fddist + 1] = f.fdchar
                   [] f.fdkind = "string" -> StartsWith(s, pos + f.fddist, f.fdstr, FALSE)
                   [] OTHER -> TRUE,
    fdsets   |-> \A k \in 1..Len(f.fdsets) : pos + f.fdsets[k].dist < n /\ In(s[pos + f.fdsets[k].dist + 1], f.fdsets[k]["in"]),
    lal      |-> ~f.lal.present \/
                 \E q \in pos..n : (\A k \in (pos + 1)..q : In(s[k], f.lal.loop)) /\
                    (IF f.lal.str # <<>> THEN StartsWith(s, q, f.lal.str, f.lal.stric)
                     ELSE IF f.lal.chars # <<>> THEN q < n /\ In(s[q + 1], f.lal.chars)
                     ELSE q < n /\ s[q + 1] = f.lal.char),
    chain    |-> ~f.chain.present \/ ChainHolds(f.chain, s, pos),
    fc       |-> ~f.fc.present \/ L = 0 \/ (pos < n /\ In(IF f.fc.ci THEN ToLower(s[pos + 1]) ELSE s[pos + 1], f.fc["in"])),
    bm       |-> ~f.bm.present \/ StartsWith(s, pos, f.bm.pat, f.bm.ci),
    anchors  |-> \A k \in 1..Len(f.anch) : AnchorAt(f.anch[k], s, pos) ]

\* right-to-left pattern: the attempt position pos is the RIGHT end of the match, e its left end
FactsHoldRTL(f, s, pos, e) ==
  LET n == Len(s)  L == pos - e IN
  [ minlen   |-> f.minlen <= pos,
    maxlen   |-> f.maxlen < 0 \/ L <= f.maxlen,
    fdlit    |-> f.fdkind # "char" \/ (pos > 0 /\ s[pos] = f.fdchar),
    fdsets   |-> \A k \in 1..Len(f.fdsets) : f.fdsets[k].dist # 0 \/ (pos > 0 /\ In(s[pos], f.fdsets[k]["in"])),
    fc       |-> ~f.fc.present \/ L = 0 \/ (pos > 0 /\ In(IF f.fc.ci THEN ToLower(s[pos]) ELSE s[pos], f.fc["in"])),
    bm       |-> ~f.bm.present \/ EndsWith(s, pos, f.bm.pat, f.bm.ci) ]

Violated(rec) == {k \in DOMAIN rec : ~rec[k]}
=============================================================================

----------------------------- MODULE Gen_Class -----------------------------
(***************************************************************************)
(* C16, forward direction: CharClass!InClass is a pure function with rich  *)
(* case analysis, so TLC turns a bounded domain of class expressions into  *)
(* implementation tests.  A class is built from a vocabulary of PARTS      *)
(* (single letters with unusual case orbits, ranges that leave one gap,    *)
(* shorthands and their complements, categories and their complements,     *)
(* POSIX names): every ordered pair of parts (or one part) x negation x a  *)
(* subtraction from a small vocabulary x IgnoreCase x dialect.  For each   *)
(* class TLC predicts the members among the runes of a fixed domain (all   *)
(* of ASCII plus runes chosen for their case orbits, categories and        *)
(* positions); the replayer prints the class with the parts in the given   *)
(* order, compiles it and compares the membership of every domain rune on  *)
(* the real engine.                                                        *)
(*   Params: parts  <<[rs, cats, shs, posix, dias]>>  subs <<class>>       *)
(*           dom <<rune>>   dias <<"net","re2","ecma">>   stride, offset   *)
(***************************************************************************)
EXTENDS Integers, Sequences, FiniteSets, TLC, Json, IOUtils, CharClass

ASSUME TLCSet(7, JsonDeserialize(IOEnv.VERIF_PARAMS))
Params == TLCGet(7)
P  == Params.parts
S  == Params.subs
NP == Len(P)
NS == Len(S)
ND == Len(Params.dias)
Total == NP * (NP + 1) * 2 * (NS + 1) * 2 * ND

\* decoding of the class index
P1(id)  == (id % NP) + 1
P2(id)  == (id \div NP) % (NP + 1)                               \* 0 = no second part
Neg(id) == ((id \div (NP * (NP + 1))) % 2) = 1
Sub(id) == (id \div (NP * (NP + 1) * 2)) % (NS + 1)              \* 0 = no subtraction
Ic(id)  == ((id \div (NP * (NP + 1) * 2 * (NS + 1))) % 2) = 1
Dia(id) == Params.dias[((id \div (NP * (NP + 1) * 2 * (NS + 1) * 2)) % ND) + 1]

Allowed(p, dia) == \E k \in 1..Len(P[p].dias) : P[p].dias[k] = dia
Valid(id) == Allowed(P1(id), Dia(id)) /\ (P2(id) = 0 \/ Allowed(P2(id), Dia(id)))

ClassOf(id) ==
  LET a == P[P1(id)]
      two == P2(id) # 0
      b == IF two THEN P[P2(id)] ELSE a
      cat2(f(_)) == IF two THEN f(a) \o f(b) ELSE f(a)
  IN [rs    |-> cat2(LAMBDA x : x.rs),   cats  |-> cat2(LAMBDA x : x.cats),
      shs   |-> cat2(LAMBDA x : x.shs),  posix |-> cat2(LAMBDA x : x.posix),
      neg   |-> Neg(id),
      sub   |-> IF Sub(id) = 0 THEN <<>> ELSE <<S[Sub(id)]>>]

Emit(id) ==
  LET cls == ClassOf(id) IN
  PrintT(<<"C", ToJson([id |-> id, p1 |-> P1(id), p2 |-> P2(id), neg |-> Neg(id), sub |-> Sub(id), ic |-> Ic(id), dia |-> Dia(id),
                         members |-> SelectSeq(Params.dom, LAMBDA x : InClass(x, cls, Ic(id), Dia(id)))])>>)

VARIABLES c, j
NChunks == 64
Init == c \in 1..NChunks /\ j = -1
Next == j = -1 /\ \E id \in {x \in 0..(Total - 1) : (x % NChunks) + 1 = c /\ (x % Params.stride) = (Params.offset % Params.stride) /\ Valid(x)} :
           j' = id /\ c' = c /\ Emit(id)
Spec == Init /\ [][Next]_<<c, j>>
=============================================================================

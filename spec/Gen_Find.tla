------------------------------ MODULE Gen_Find ------------------------------
(***************************************************************************)
(* Forward conformance (spec -> code) for C01 / C15 / C18: TLC enumerates  *)
(* a bounded pattern grammar by index, and for every pattern of the C01    *)
(* fragment prints the table together with the result RegexSem.Find        *)
(* predicts for EVERY input string up to a length bound and EVERY start    *)
(* offset.  The Go replayer prints the table as pattern text, runs the     *)
(* real engine and compares index, length and complete capture lists.      *)
(*                                                                         *)
(* Parameters (JSON file named by VERIF_PARAMS):                           *)
(*   families  names of the selected pattern families                      *)
(*   o, dia, rtl   compile options                                         *)
(*   alpha   input alphabet (code points); the first two are the pattern's *)
(*           letters                                                       *)
(*   maxlen  input length bound      stride, offset  pid = offset + k*stride*)
(*   nonnull restrict to patterns without a quantified nullable operand    *)
(*           (C06: the domain on which Go's regexp and backtracking agree) *)
(***************************************************************************)
EXTENDS Integers, Sequences, FiniteSets, TLC, Json, IOUtils, RegexAST, RegexSem, Options

Params == JsonDeserialize(IOEnv.VERIF_PARAMS)
A  == Params.alpha
a  == A[1]
b  == A[2]

Inputs_def == StrUpTo(A, Params.maxlen)

\* ---------------------------------------------------------------- building blocks
Leaves_def == <<Chr(a), Chr(b), Cls(<< <<a, a>> >>, TRUE), Dot, Cls(<< <<a, a>>, <<b, b>> >>, FALSE)>>
Quants_def == << <<0, -1, FALSE>>, <<1, -1, FALSE>>, <<0, 1, FALSE>>, <<0, -1, TRUE>>, <<1, -1, TRUE>>, <<0, 1, TRUE>>,
             <<2, 2, FALSE>>, <<1, 2, TRUE>>, <<2, -1, FALSE>>, <<0, 2, FALSE>> >>
QLeaves_def == Prod2(Rep, Leaves_def, Quants_def) \o <<>>                   \* 50 quantified leaves
I1_def == Leaves_def \o QLeaves_def                                  \* 55 items
L2_def == Prod2(Cat2, <<Chr(a), Chr(b), Dot>>, Leaves_def) \o <<>>      \* 15 two-letter sequences
Anchors_def == <<Op("caret"), Op("dollar"), Op("A"), Op("Z"), Op("z"), Op("b"), Op("B"), Op("G")>>
Looks_def == <<"look", "nlook", "lookb", "nlookb">>
Bodies_def == Leaves_def \o L2_def \o Prod2(Alt2, <<Chr(a), Chr(b)>>, <<Chr(b), Cat2(Chr(a), Chr(b)), Dot>>) \* 26 group bodies
QBodies_def == Bodies_def \o Prod2(Cat2, <<Chr(a), Chr(b)>>, QLeaves_def) \* + 100 bodies with an inner loop

\* further building blocks (all small, explicit tuples)
LeavesE_def    == Leaves_def \o <<Empty>>
ELeaves_def    == <<Empty>> \o Leaves_def
AnchorsE_def   == Anchors_def \o <<Empty>>
LeavesDS_def   == Leaves_def \o <<Rep(Dot, <<0, -1, FALSE>>)>>
NcgBodies_def  == L2_def \o Prod2(Alt2, Leaves_def, L2_def)
RefTails_def   == <<Ref(1), Cat2(Ref(1), Ref(1)), Cat2(Ref(1), Chr(a))>>
NamedHeads_def == Leaves_def \o <<Rep(Chr(a), <<0, -1, FALSE>>)>>
NamedTails_def == <<Ref(1), Ref(2), RefNm("n"), Cat2(Ref(2), Ref(1))>>
AtomBodies_def == I1_def \o Prod2(Alt2, Leaves_def, L2_def \o Leaves_def)
LookLeaves_def == Prod2(LAMBDA l, x : Un(l, x), Looks_def, Leaves_def) \o <<>>
L2Leaves_def   == L2_def \o Leaves_def
DotReps_def    == <<Dot, Rep(Dot, <<0, -1, FALSE>>), Rep(Dot, <<1, -1, TRUE>>)>>
\* loop bodies of three items: a letter, a loop, a nullable loop (what follows a loop inside an iterated body is the
\* body's own beginning on the next iteration)
Abc_def        == <<Chr(a), Chr(b), Cls(<< <<a, a>>, <<b, b>> >>, FALSE)>>
MidLoops_def   == Prod2(Rep, Abc_def, << <<0, -1, FALSE>>, <<1, -1, FALSE>>, <<0, -1, TRUE>> >>) \o <<>>
EndLoops_def   == Prod2(Rep, <<Chr(a), Chr(b)>>, << <<0, 1, FALSE>>, <<0, -1, FALSE>>, <<0, 1, TRUE>> >>) \o <<>>
Body3_def      == Prod3(LAMBDA x, y, z : Cat3(x, y, z), Abc_def, MidLoops_def, EndLoops_def) \o <<>>
Tails_def      == <<Chr(a), Chr(b), Empty, Op("z")>>
\* loops over classes that contain the newline, in front of the end anchors (what may follow such a loop decides
\* whether it may be made atomic / greedy)
NLItems_def    == <<Sh("s"), Sh("W"), Sh("D"), Cls(<< <<a, a>>, <<b, b>> >>, TRUE), Chr(10), Cls(<< <<10, 10>>, <<a, a>> >>, FALSE)>>
NLLoops_def    == Prod2(Rep, NLItems_def, Quants_def) \o <<>>
\* alternation branches that are concatenations beginning with a loop (the prefix-factoring rewrites compare the branches' leading
\* loops: same operand, equal or different bounds)
LoopHeads_def  == Prod2(Rep, <<Chr(a), Cls(<< <<a, a>>, <<b, b>> >>, FALSE), Dot>>,
                        << <<2, 2, FALSE>>, <<1, 2, FALSE>>, <<0, 2, FALSE>>, <<1, -1, FALSE>>, <<0, 1, FALSE>>, <<1, 2, TRUE>> >>) \o <<>>
Branches_def   == Prod2(Cat2, LoopHeads_def, <<Chr(a), Chr(b)>>) \o <<>>
EndAnchors_def == <<Op("dollar"), Op("Z"), Op("z"), OptG(<<"m">>, <<>>, Op("dollar")), Op("b"), Op("B"), Cat2(Op("dollar"), Chr(10))>>

\* A family is the product of two or three small factor sequences; its i-th tree is computed by index
\* arithmetic, so no family is ever materialised.
Ix2(i, S1, S2, which)     == IF which = 1 THEN S1[((i - 1) \div Len(S2)) + 1] ELSE S2[((i - 1) % Len(S2)) + 1]
Ix3(i, S1, S2, S3, which) == IF which = 1 THEN S1[((i - 1) \div (Len(S2) * Len(S3))) + 1]
                             ELSE IF which = 2 THEN S2[(((i - 1) \div Len(S3)) % Len(S2)) + 1]
                             ELSE S3[((i - 1) % Len(S3)) + 1]

FamNames == <<"seq2", "seq3", "alt2", "altseq", "seqalt", "grpq", "grpq2", "ncgq", "ref", "refq", "named", "look", "look2", "lookg", "atom", "anchor", "anchor2", "cond", "condx", "nested", "opti", "optm", "opts", "body3", "body3g", "nlend", "atomseq", "altcat">>
FamSizes_def == <<Len(I1_def) * Len(I1_def), Len(I1_def) * Len(I1_def) * Len(Leaves_def), Len(I1_def) * Len(I1_def), Len(I1_def) * Len(I1_def) * Len(Leaves_def), Len(I1_def) * Len(I1_def) * Len(Leaves_def), Len(QBodies_def) * Len(Quants_def) * Len(LeavesE_def), Len(Bodies_def) * Len(Quants_def) * Len(I1_def), Len(NcgBodies_def) * Len(Quants_def) * Len(I1_def), Len(I1_def) * Len(ELeaves_def) * Len(RefTails_def), Len(I1_def) * Len(Quants_def) * Len(Leaves_def), Len(NamedHeads_def) * Len(Leaves_def) * Len(NamedTails_def), Len(Looks_def) * Len(I1_def) * Len(I1_def), Len(Looks_def) * Len(I1_def) * Len(I1_def), Len(Looks_def) * Len(QBodies_def) * Len(LeavesE_def), Len(AtomBodies_def) * Len(I1_def), Len(Anchors_def) * Len(I1_def) * Len(AnchorsE_def), Len(I1_def) * Len(Anchors_def) * Len(LeavesDS_def), Len(Leaves_def) * Len(I1_def) * Len(LeavesE_def), Len(LookLeaves_def) * Len(I1_def) * Len(LeavesE_def), Len(L2Leaves_def) * Len(Quants_def) * Len(Leaves_def), Len(I1_def) * Len(I1_def) * Len(Leaves_def), Len(Anchors_def) * Len(I1_def) * Len(Anchors_def), Len(I1_def) * Len(DotReps_def) * Len(I1_def), Len(Body3_def) * Len(Quants_def) * Len(Tails_def), Len(Body3_def) * Len(Quants_def) * Len(Tails_def), Len(ELeaves_def) * Len(NLLoops_def) * Len(EndAnchors_def), Len(QLeaves_def) * Len(Leaves_def) * Len(LeavesE_def), Len(Branches_def) * Len(Branches_def) * 2>>

NF == Len(FamNames)
CumTab_def == [k \in 0..NF |-> LET RECURSIVE Cum(_) Cum(m) == IF m = 0 THEN 0 ELSE Cum(m - 1) + FamSizes_def[m] IN Cum(k)]
Selected_def == {k \in 1..NF : FamNames[k] \in SeqToSet(Params.families)}

K_def == [Inputs |-> Inputs_def, Leaves |-> Leaves_def, Quants |-> Quants_def, QLeaves |-> QLeaves_def, I1 |-> I1_def, L2 |-> L2_def, Anchors |-> Anchors_def, Looks |-> Looks_def, Bodies |-> Bodies_def, QBodies |-> QBodies_def, LeavesE |-> LeavesE_def, ELeaves |-> ELeaves_def, AnchorsE |-> AnchorsE_def, LeavesDS |-> LeavesDS_def, NcgBodies |-> NcgBodies_def, RefTails |-> RefTails_def, NamedHeads |-> NamedHeads_def, NamedTails |-> NamedTails_def, AtomBodies |-> AtomBodies_def, LookLeaves |-> LookLeaves_def, L2Leaves |-> L2Leaves_def, DotReps |-> DotReps_def, Body3 |-> Body3_def, Tails |-> Tails_def, NLLoops |-> NLLoops_def, EndAnchors |-> EndAnchors_def, Branches |-> Branches_def, FamSizes |-> FamSizes_def, CumTab |-> CumTab_def, Selected |-> Selected_def]
ASSUME TLCSet(5, K_def)
K == TLCGet(5)
Inputs == K.Inputs
Leaves == K.Leaves
Quants == K.Quants
QLeaves == K.QLeaves
I1 == K.I1
L2 == K.L2
Anchors == K.Anchors
Looks == K.Looks
Bodies == K.Bodies
QBodies == K.QBodies
LeavesE == K.LeavesE
ELeaves == K.ELeaves
AnchorsE == K.AnchorsE
LeavesDS == K.LeavesDS
NcgBodies == K.NcgBodies
RefTails == K.RefTails
NamedHeads == K.NamedHeads
NamedTails == K.NamedTails
AtomBodies == K.AtomBodies
LookLeaves == K.LookLeaves
L2Leaves == K.L2Leaves
DotReps == K.DotReps
Body3 == K.Body3
Tails == K.Tails
NLLoops == K.NLLoops
EndAnchors == K.EndAnchors
Branches == K.Branches
EmptyOrB == <<Empty, Chr(b)>>
FamSizes == K.FamSizes
CumTab == K.CumTab
Selected == K.Selected

FamTree(k, i) ==
  CASE k = 1 -> LET x1 == Ix2(i, I1, I1, 1)  x2 == Ix2(i, I1, I1, 2) IN Cat2(x1, x2)
    [] k = 2 -> LET x1 == Ix3(i, I1, I1, Leaves, 1)  x2 == Ix3(i, I1, I1, Leaves, 2)  x3 == Ix3(i, I1, I1, Leaves, 3) IN Cat3(x1, x2, x3)
    [] k = 3 -> LET x1 == Ix2(i, I1, I1, 1)  x2 == Ix2(i, I1, I1, 2) IN Alt2(x1, x2)
    [] k = 4 -> LET x1 == Ix3(i, I1, I1, Leaves, 1)  x2 == Ix3(i, I1, I1, Leaves, 2)  x3 == Ix3(i, I1, I1, Leaves, 3) IN Cat2(Alt2(x1, x2), x3)
    [] k = 5 -> LET x1 == Ix3(i, I1, I1, Leaves, 1)  x2 == Ix3(i, I1, I1, Leaves, 2)  x3 == Ix3(i, I1, I1, Leaves, 3) IN Cat2(x1, Alt2(x2, x3))
    [] k = 6 -> LET x1 == Ix3(i, QBodies, Quants, LeavesE, 1)  x2 == Ix3(i, QBodies, Quants, LeavesE, 2)  x3 == Ix3(i, QBodies, Quants, LeavesE, 3) IN Cat2(Rep(Grp(x1), x2), x3)
    [] k = 7 -> LET x1 == Ix3(i, Bodies, Quants, I1, 1)  x2 == Ix3(i, Bodies, Quants, I1, 2)  x3 == Ix3(i, Bodies, Quants, I1, 3) IN Cat3(x3, Rep(Grp(x1), x2), Op("z"))
    [] k = 8 -> LET x1 == Ix3(i, NcgBodies, Quants, I1, 1)  x2 == Ix3(i, NcgBodies, Quants, I1, 2)  x3 == Ix3(i, NcgBodies, Quants, I1, 3) IN Cat2(Rep(x1, x2), x3)
    [] k = 9 -> LET x1 == Ix3(i, I1, ELeaves, RefTails, 1)  x2 == Ix3(i, I1, ELeaves, RefTails, 2)  x3 == Ix3(i, I1, ELeaves, RefTails, 3) IN Cat3(Grp(x1), x2, x3)
    [] k = 10 -> LET x1 == Ix3(i, I1, Quants, Leaves, 1)  x2 == Ix3(i, I1, Quants, Leaves, 2)  x3 == Ix3(i, I1, Quants, Leaves, 3) IN Cat3(Rep(Cat2(Grp(x1), x3), x2), Ref(1), Op("z"))
    [] k = 11 -> LET x1 == Ix3(i, NamedHeads, Leaves, NamedTails, 1)  x2 == Ix3(i, NamedHeads, Leaves, NamedTails, 2)  x3 == Ix3(i, NamedHeads, Leaves, NamedTails, 3) IN Cat3(Named("n", x1), Grp(x2), x3)
    [] k = 12 -> LET x1 == Ix3(i, Looks, I1, I1, 1)  x2 == Ix3(i, Looks, I1, I1, 2)  x3 == Ix3(i, Looks, I1, I1, 3) IN Cat2(Un(x1, x2), x3)
    [] k = 13 -> LET x1 == Ix3(i, Looks, I1, I1, 1)  x2 == Ix3(i, Looks, I1, I1, 2)  x3 == Ix3(i, Looks, I1, I1, 3) IN Cat2(x3, Un(x1, x2))
    [] k = 14 -> LET x1 == Ix3(i, Looks, QBodies, LeavesE, 1)  x2 == Ix3(i, Looks, QBodies, LeavesE, 2)  x3 == Ix3(i, Looks, QBodies, LeavesE, 3) IN Cat3(x3, Un(x1, Grp(x2)), Ref(1))
    [] k = 15 -> LET x1 == Ix2(i, AtomBodies, I1, 1)  x2 == Ix2(i, AtomBodies, I1, 2) IN Cat2(Un("atom", x1), x2)
    [] k = 16 -> LET x1 == Ix3(i, Anchors, I1, AnchorsE, 1)  x2 == Ix3(i, Anchors, I1, AnchorsE, 2)  x3 == Ix3(i, Anchors, I1, AnchorsE, 3) IN Cat3(x1, x2, x3)
    [] k = 17 -> LET x1 == Ix3(i, I1, Anchors, LeavesDS, 1)  x2 == Ix3(i, I1, Anchors, LeavesDS, 2)  x3 == Ix3(i, I1, Anchors, LeavesDS, 3) IN Cat3(x1, x2, x3)
    [] k = 18 -> LET x1 == Ix3(i, Leaves, I1, LeavesE, 1)  x2 == Ix3(i, Leaves, I1, LeavesE, 2)  x3 == Ix3(i, Leaves, I1, LeavesE, 3) IN Cat2(Rep(Grp(x1), <<0, 1, FALSE>>), CondRef(1, x2, x3))
    [] k = 19 -> LET x1 == Ix3(i, LookLeaves, I1, LeavesE, 1)  x2 == Ix3(i, LookLeaves, I1, LeavesE, 2)  x3 == Ix3(i, LookLeaves, I1, LeavesE, 3) IN Cat2(CondExp(x1, x2, x3), Dot)
    [] k = 20 -> LET x1 == Ix3(i, L2Leaves, Quants, Leaves, 1)  x2 == Ix3(i, L2Leaves, Quants, Leaves, 2)  x3 == Ix3(i, L2Leaves, Quants, Leaves, 3) IN Rep(Grp(Cat2(Rep(Grp(x1), x2), x3)), <<1, -1, FALSE>>)
    [] k = 21 -> LET x1 == Ix3(i, I1, I1, Leaves, 1)  x2 == Ix3(i, I1, I1, Leaves, 2)  x3 == Ix3(i, I1, I1, Leaves, 3) IN Cat3(x1, OptG(<<"i">>, <<>>, x2), x3)
    [] k = 22 -> LET x1 == Ix3(i, Anchors, I1, Anchors, 1)  x2 == Ix3(i, Anchors, I1, Anchors, 2)  x3 == Ix3(i, Anchors, I1, Anchors, 3) IN Cat3(OptG(<<"m">>, <<>>, x1), x2, OptG(<<>>, <<"m">>, x3))
    [] k = 23 -> LET x1 == Ix3(i, I1, DotReps, I1, 1)  x2 == Ix3(i, I1, DotReps, I1, 2)  x3 == Ix3(i, I1, DotReps, I1, 3) IN Cat3(x1, OptG(<<"s">>, <<>>, x2), x3)
    [] k = 24 -> LET x1 == Ix3(i, Body3, Quants, Tails, 1)  x2 == Ix3(i, Body3, Quants, Tails, 2)  x3 == Ix3(i, Body3, Quants, Tails, 3) IN Cat2(Rep(x1, x2), x3)
    [] k = 25 -> LET x1 == Ix3(i, Body3, Quants, Tails, 1)  x2 == Ix3(i, Body3, Quants, Tails, 2)  x3 == Ix3(i, Body3, Quants, Tails, 3) IN Cat2(Rep(Grp(x1), x2), x3)
    [] k = 26 -> LET x1 == Ix3(i, ELeaves, NLLoops, EndAnchors, 1)  x2 == Ix3(i, ELeaves, NLLoops, EndAnchors, 2)  x3 == Ix3(i, ELeaves, NLLoops, EndAnchors, 3) IN Cat3(x1, x2, x3)
    [] k = 27 -> LET x1 == Ix3(i, QLeaves, Leaves, LeavesE, 1)  x2 == Ix3(i, QLeaves, Leaves, LeavesE, 2)  x3 == Ix3(i, QLeaves, Leaves, LeavesE, 3) IN Cat2(Un("atom", Cat2(x1, x2)), x3)
    [] k = 28 -> LET x1 == Ix3(i, Branches, Branches, EmptyOrB, 1)  x2 == Ix3(i, Branches, Branches, EmptyOrB, 2)  x3 == Ix3(i, Branches, Branches, EmptyOrB, 3) IN Cat2(Alt2(x1, x2), x3)

NFam == CumTab[NF]
FamIdx(pid) == CHOOSE k \in 1..NF : CumTab[k - 1] < pid /\ pid <= CumTab[k]
TreeAt(pid) == LET k == FamIdx(pid) IN FamTree(k, pid - CumTab[k - 1])


NChunks == 256
\* the pids of chunk c: offset + stride * (c - 1 + NChunks * m), restricted to the selected families
ChunkPids(c) ==
  LET first == Params.offset + Params.stride * (c - 1)
      step  == Params.stride * NChunks
  IN {pid \in {first + step * m : m \in 0..((NFam - first) \div step)} :
         pid >= 1 /\ pid <= NFam /\ FamIdx(pid) \in Selected}

Compact(f) == IF f.ok THEN <<f.idx, f.len, f.caps>> ELSE <<>>

\* C18: the same pattern spelled with inline options.  Params.spelling:
\*   "plain"    t compiled with options Params.o
\*   "optset"   (?so)t      compiled with Params.o (normally none)
\*   "optgroup" (?so:t)     compiled with Params.o (normally none)
\*   "nested"   (?-so:t)(?so:t) compiled with Params.o: the options are switched off for the first copy only
\*   "inner"    (?:(?so)t)      an option item inside a group: its scope is the rest of that group
\*   "innertail" (?:(?so)t)t    ... and ends with it: the second copy runs under Params.o again
\* Params.variants: sequence of [spelling, so, o]; one TLC run covers them all
Variants == Params.variants
Spell(t, v) ==
  CASE v.spelling = "optset"   -> Cat2(OptSet(v.so, <<>>), t)
    [] v.spelling = "optgroup" -> OptG(v.so, <<>>, t)
    [] v.spelling = "nested"   -> Cat2(OptG(<<>>, v.so, t), OptG(v.so, <<>>, t))
    [] v.spelling = "inner"    -> OptG(<<>>, <<>>, Cat2(OptSet(v.so, <<>>), t))
    [] v.spelling = "innertail" -> Cat2(OptG(<<>>, <<>>, Cat2(OptSet(v.so, <<>>), t)), t)
    [] OTHER -> t

Emit(pid, vi) ==
  LET v == Variants[vi]
      O == SeqToSet(v.o)
      SO == v.so
      t == Spell(TreeAt(pid), v) IN
  IF ~InFragment(t, "n" \in O) \/ (Params.nonnull /\ ~NoNullableOperand(t, "n" \in O)) THEN PrintT(<<"SKIP", ToJson([pid |-> pid])>>)
  ELSE
  LET p == Table(t) IN
  IF PreOrder(p) /\ OptsetPlacement(p) /\ ~RefsResolve(p, O, Params.dia)
  THEN PrintT(<<"SKIP", ToJson([pid |-> pid])>>)      \* a reference to a group the options make non-capturing: not a pattern
  ELSE IF ~WF(p, O, Params.dia) THEN PrintT(<<"WFERR", ToJson([pid |-> pid])>>)
  ELSE
  LET e   == Elab(p, O, Params.dia)
      res == [k \in 1..Len(Inputs) |->
                [st \in 1..(Len(Inputs[k]) + 1) |-> Compact(Find(e, Inputs[k], st - 1, -1, Params.rtl))]]
      \* M: on the specification itself the inline spelling means exactly the compile-time options
      plainE == Elab(Table(TreeAt(pid)), O \cup SeqToSet(SO), Params.dia)
      same == v.spelling \notin {"optset", "optgroup", "inner"} \/
              \A k \in 1..Len(Inputs) : \A st \in 1..(Len(Inputs[k]) + 1) :
                  Compact(Find(plainE, Inputs[k], st - 1, -1, Params.rtl)) = res[k][st]
  IN (same \/ PrintT(<<"SPECDIFF", ToJson([pid |-> pid])>>)) /\ PrintT(<<"P", ToJson([pid |-> pid, vi |-> vi, o |-> v.o, fam |-> FamNames[FamIdx(pid)], p |-> p, res |-> res])>>)

VARIABLES c, j
Init == /\ c \in 1..NChunks /\ j = <<>>
        /\ (c = 1 => PrintT(<<"INPUTS", ToJson([n |-> NFam, sizes |-> FamSizes, names |-> FamNames, inputs |-> Inputs])>>))
Next == j = <<>> /\ \E pid \in ChunkPids(c) : \E vi \in 1..Len(Variants) : j' = <<pid, vi>> /\ c' = c /\ Emit(pid, vi)
Spec == Init /\ [][Next]_<<c, j>>
=============================================================================

------------------------------ MODULE Gen_Fold ------------------------------
(***************************************************************************)
(* C16, forward direction for the IgnoreCase closure of RANGES: for every  *)
(* rune r that has a simple case-fold orbit (Unicode!OrbitTab, 2 878       *)
(* runes) the two-rune classes [r-(r+1)] and [(r-1)-r] are predicted by    *)
(* CharClass!InClass on a domain made of the range, its neighbours, the    *)
(* orbits of its members and their neighbours, and the images r +- 32,     *)
(* r +- 1, r + 48 that fixed-offset lower-casing tables produce.  The      *)
(* replayer compiles each class with IgnoreCase (a RANGE takes another     *)
(* path through the class compiler than single characters do) and probes   *)
(* the domain runes on the real engine.                                    *)
(***************************************************************************)
EXTENDS Integers, Sequences, FiniteSets, TLC, Json, IOUtils, CharClass

ASSUME TLCSet(7, JsonDeserialize(IOEnv.VERIF_PARAMS))
Params == TLCGet(7)

N == Len(OrbitTab)
Clamp(S) == {x \in S : x >= 0 /\ x <= MaxRune /\ ~(55296 <= x /\ x <= 57343)}
Around(x) == {x - 1, x, x + 1}
DomOf(lo, hi) ==
  LET base == {lo - 1, lo, hi, hi + 1}
      orb  == UNION {Orbit(x) : x \in Clamp(base)}
      img  == UNION {{x - 32, x + 32, x + 48, x - 48, x + 80, x - 80} : x \in {lo, hi}}
  IN Clamp(UNION {Around(x) : x \in base \cup orb} \cup img)

ClassOf(lo, hi) == [rs |-> << <<lo, hi>> >>, cats |-> <<>>, shs |-> <<>>, posix |-> <<>>, neg |-> FALSE, sub |-> <<>>]

Emit(k, side) ==
  LET r  == OrbitTab[k][1]
      lo == IF side = 0 THEN r ELSE r - 1
      hi == lo + 1
      dom == DomOf(lo, hi)
      mem == {x \in dom : InClass(x, ClassOf(lo, hi), TRUE, "net")}
      SetToSeq(S) == LET RECURSIVE F(_) F(T) == IF T = {} THEN <<>> ELSE LET m == CHOOSE x \in T : \A y \in T : x <= y IN <<m>> \o F(T \ {m}) IN F(S)
  IN PrintT(<<"F", ToJson([lo |-> lo, hi |-> hi, dom |-> SetToSeq(dom), members |-> SetToSeq(mem)])>>)

VARIABLES c, j
NChunks == 64
Init == c \in 1..NChunks /\ j = <<>>
Next == j = <<>> /\ \E k \in {x \in 1..N : (x % NChunks) + 1 = c /\ (x % Params.stride) = (Params.offset % Params.stride)} : \E side \in 0..1 :
           /\ (side = 1 => OrbitTab[k][1] > 0 /\ ~(55296 <= OrbitTab[k][1] - 1 /\ OrbitTab[k][1] - 1 <= 57343))
           /\ j' = <<k, side>> /\ c' = c /\ Emit(k, side)
Spec == Init /\ [][Next]_<<c, j>>
=============================================================================

----------------------------- MODULE Gen_Groups -----------------------------
(***************************************************************************)
(* C17, forward direction: Groups!Numbering is a pure function with rich   *)
(* case analysis, so TLC turns its domain into implementation tests: every *)
(* sequence of group declarations up to the length bound over a small      *)
(* vocabulary (unnamed, named a / b, numbered 2 / 3 / 5, each also under   *)
(* ExplicitCapture) x {default, order}, with the predicted numbering.      *)
(* The replayer builds a pattern in which the i-th declaration matches the *)
(* i-th letter and checks every observable of the name/number map.         *)
(***************************************************************************)
EXTENDS Integers, Sequences, FiniteSets, TLC, Json, IOUtils, Groups

Params == JsonDeserialize(IOEnv.VERIF_PARAMS)

Vocab == << [kind |-> "u", nm |-> "", num |-> 0, x |-> FALSE],
            [kind |-> "n", nm |-> "a", num |-> 0, x |-> FALSE],
            [kind |-> "n", nm |-> "b", num |-> 0, x |-> FALSE],
            [kind |-> "k", nm |-> "2", num |-> 2, x |-> FALSE],
            [kind |-> "k", nm |-> "3", num |-> 3, x |-> FALSE],
            [kind |-> "k", nm |-> "5", num |-> 5, x |-> FALSE],
            [kind |-> "u", nm |-> "", num |-> 0, x |-> TRUE],
            [kind |-> "n", nm |-> "a", num |-> 0, x |-> TRUE] >>
V == Len(Vocab)

\* the id-th sequence of length len (base-V digits)
SeqAt(len, id) == [k \in 1..len |-> Vocab[((id \div (V ^ (k - 1))) % V) + 1]]

RECURSIVE Pow(_,_)
Pow(b, e) == IF e = 0 THEN 1 ELSE b * Pow(b, e - 1)
Count(len) == Pow(V, len)

Modes == <<"default", "order">>

Emit(len, id, mode) ==
  LET ds == SeqAt(len, id)  g == Numbering(ds, mode) IN
  PrintT(<<"G", ToJson([len |-> len, id |-> id, mode |-> mode, ds |-> ds, num |-> g.num, numbers |-> g.numbers, names |-> g.names,
                        consistent |-> Consistent(g)])>>)

VARIABLES c, j
NChunks == 64
Init == c \in 1..NChunks /\ j = <<>>
Next == j = <<>> /\ \E len \in 1..Params.maxlen : \E id \in 0..(Count(len) - 1) : \E m \in 1..2 :
           /\ (id % NChunks) + 1 = c
           /\ (id + len) % Params.stride = Params.offset % Params.stride
           /\ j' = <<len, id, m>> /\ c' = c /\ Emit(len, id, Modes[m])
Spec == Init /\ [][Next]_<<c, j>>
=============================================================================

------------------------------ MODULE Gen_Hist ------------------------------
(***************************************************************************)
(* C12, forward direction: call histories over the call alphabet of the    *)
(* harness (regexp x input x operation), enumerated by TLC:                *)
(*  - EVERY ordered pair (predecessor call, successor call) of a reduced   *)
(*    alphabet (the predecessor leaves the reusable state behind, the      *)
(*    successor must not see it), and                                      *)
(*  - longer pseudo-random histories.                                      *)
(* The specification's prediction is the headline property of Pool.tla:    *)
(* the result of each step is a function of its arguments only, i.e. equal *)
(* to the result on a freshly compiled Regexp.                             *)
(***************************************************************************)
EXTENDS Integers, Sequences, TLC, Json, IOUtils

Params == JsonDeserialize(IOEnv.VERIF_PARAMS)
NRe == Params.nre
NIn == Params.nin
NOp == Params.nop

\* the reduced alphabet: every regexp x operation on one ordinary input, plus the special inputs that make the
\* timeout / stack-limit regexps fail and the large inputs that cross the buffer size classes
Alphabet ==
  LET base == [i \in 1..(NRe * NOp) |-> [re |-> (i - 1) \div NOp, op |-> (i - 1) % NOp, inp |-> 0, repl |-> i % 20]]
      special == << [re |-> Params.timeoutRe, op |-> 0, inp |-> 4, repl |-> 0], [re |-> Params.timeoutRe, op |-> 2, inp |-> 4, repl |-> 0],
                    [re |-> Params.stackRe, op |-> 2, inp |-> 5, repl |-> 0], [re |-> Params.stackRe, op |-> 6, inp |-> 5, repl |-> 1],
                    [re |-> 0, op |-> 2, inp |-> 1, repl |-> 0], [re |-> 6, op |-> 6, inp |-> 2, repl |-> 2], [re |-> 2, op |-> 3, inp |-> 3, repl |-> 0],
                    [re |-> 1, op |-> 0, inp |-> 3, repl |-> 0], [re |-> 6, op |-> 6, inp |-> 0, repl |-> 17] >>
  IN base \o special
NA == Len(Alphabet)

Lcg(x) == (x * 75 + 74) % 65537      \* (TLC integers are 32-bit)
RECURSIVE RandHist(_,_,_)
RandHist(seed, n, acc) == IF n = 0 THEN acc ELSE RandHist(Lcg(seed), n - 1, Append(acc, Alphabet[(seed % NA) + 1]))

VARIABLES c, j
NChunks == 32
Init == c \in 1..NChunks /\ j = <<>>
Next == j = <<>> /\
        \/ \E a \in 1..NA : \E b \in 1..NA :
              /\ ((a * NA + b) % NChunks) + 1 = c /\ ((a * NA + b) % Params.stride) = (Params.offset % Params.stride)
              /\ j' = <<a, b>> /\ c' = c
              /\ PrintT(<<"H", ToJson([calls |-> <<Alphabet[a], Alphabet[b]>>])>>)
        \/ \E k \in 1..Params.nrandom :
              /\ (k % NChunks) + 1 = c /\ j' = <<0, k>> /\ c' = c
              /\ PrintT(<<"H", ToJson([calls |-> RandHist((Params.seed * 131 + k * 17) % 65537, Params.randlen, <<>>)])>>)
Spec == Init /\ [][Next]_<<c, j>>
=============================================================================

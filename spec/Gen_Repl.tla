------------------------------ MODULE Gen_Repl ------------------------------
(***************************************************************************)
(* C09, forward direction for the replacement mini-language: ParseRepl /   *)
(* Expand (API.tla) are pure functions with rich case analysis ($n, ${n},  *)
(* ${name}, $$, $&, $`, $', $+, $_, and every way of falling back to a     *)
(* literal).  TLC enumerates EVERY replacement string up to the length     *)
(* bound over a small alphabet of the characters the scanner looks at and  *)
(* predicts, for each of a few contexts (pattern with dense / named /      *)
(* sparse numbering, right-to-left; the context's first match is taken     *)
(* from the real engine), the result of Replace(input, r, -1, 1).          *)
(* The replayer calls the real Replace and compares the strings.           *)
(*   Params: alpha (code points), maxlen, stride, offset,                  *)
(*           ctxs: <<[s, rtl, gnums, names, nums, last, idx, len, caps]>>  *)
(***************************************************************************)
EXTENDS Integers, Sequences, FiniteSets, TLC, Json, IOUtils, RegexSem, API

ASSUME TLCSet(7, JsonDeserialize(IOEnv.VERIF_PARAMS))
Params == TLCGet(7)
NA == Len(Params.alpha)

RECURSIVE Pow(_,_)
Pow(b, e) == IF e = 0 THEN 1 ELSE b * Pow(b, e - 1)
StrAt(len, id) == [k \in 1..len |-> Params.alpha[((id \div Pow(NA, k - 1)) % NA) + 1]]

Predict(ctx, r) ==
  LET slots   == {ctx.nums[k] : k \in 1..Len(ctx.nums)}
      nameMap == [nm \in {ctx.names[k] : k \in 1..Len(ctx.names)} |->
                    ctx.nums[CHOOSE k \in 1..Len(ctx.names) : ctx.names[k] = nm]]
      SlotIdx(gn) == (CHOOSE k \in 1..Len(ctx.gnums) : ctx.gnums[k] = gn) - 1
      toks0 == ParseRepl(r, slots, nameMap, IsWordCh)
      toks  == [t \in 1..Len(toks0) |-> IF toks0[t].k = "grp" THEN [toks0[t] EXCEPT !.g = SlotIdx(toks0[t].g)] ELSE toks0[t]]
      m     == [ok |-> TRUE, idx |-> ctx.idx, len |-> ctx.len, caps |-> ctx.caps]
  IN ReplaceWith(<<m>>, ctx.s, ctx.rtl, LAMBDA x : Expand(toks, x, ctx.s, SlotIdx(ctx.last)))

VARIABLES c, j
NChunks == 64
Init == c \in 1..NChunks /\ j = <<>>
Next == j = <<>> /\ \E len \in 0..Params.maxlen :
          \E id \in {x \in 0..(Pow(NA, len) - 1) : (x % NChunks) + 1 = c /\ ((x + len) % Params.stride) = (Params.offset % Params.stride)} :
             /\ j' = <<len, id>> /\ c' = c
             /\ LET r == StrAt(len, id) IN
                PrintT(<<"R", ToJson([r |-> r, outs |-> [k \in 1..Len(Params.ctxs) |-> Predict(Params.ctxs[k], r)]])>>)
Spec == Init /\ [][Next]_<<c, j>>
=============================================================================

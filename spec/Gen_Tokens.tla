----------------------------- MODULE Gen_Tokens -----------------------------
(***************************************************************************)
(* C10 (exploration level): TLC enumerates EVERY string of lexer-relevant  *)
(* tokens up to the length bound (by index, strided in the quick tier).    *)
(* The specification predicts only the OUTCOME CLASS, which is the         *)
(* property itself:                                                        *)
(*   Compile returns a Regexp or a parse error - never a panic, never a    *)
(*   hang; every call on a compiled Regexp returns normally; the only      *)
(*   errors are a timeout, the stack limit, or the argument errors of      *)
(*   ArgError below, and those exactly when ArgError says so.              *)
(***************************************************************************)
EXTENDS Integers, Sequences, TLC, Json, IOUtils

Params == JsonDeserialize(IOEnv.VERIF_PARAMS)
NT == Params.ntokens          \* size of the token alphabet (the token texts live in the harness)

RECURSIVE Pow(_,_)
Pow(b, e) == IF e = 0 THEN 1 ELSE b * Pow(b, e - 1)

\* the id-th token string of length len: base-NT digits, token indices 0..NT-1
TokSeq(len, id) == [k \in 1..len |-> (id \div Pow(NT, k - 1)) % NT]

\* documented argument errors (regexp.go / replace.go / split.go)
\*   call \in {"FindStringMatchStartingAt", "FindRunesMatchStartingAt", "Replace", "ReplaceFunc", "Split"}
\*   n = length of the input in the unit of startAt (bytes for strings, runes for rune slices)
ArgError(call, n, startAt, onBoundary, count) ==
  CASE call \in {"FindStringMatchStartingAt", "Replace", "ReplaceFunc"} ->
          (count < -1 /\ call # "FindStringMatchStartingAt") \/ (count # 0 /\ (startAt > n \/ (startAt >= 0 /\ startAt <= n /\ ~onBoundary)))
    [] call = "FindRunesMatchStartingAt" -> startAt > n
    [] call = "Split" -> count < -1
    [] OTHER -> FALSE

VARIABLES c, j
NChunks == 64
Init == c \in 1..NChunks /\ j = <<>>
Next == j = <<>> /\ \E len \in 1..Params.maxlen :
          \E id \in {x \in 0..(Pow(NT, len) - 1) : (x % NChunks) + 1 = c /\ ((x + len) % Params.stride) = (Params.offset % Params.stride)} :
             /\ j' = <<len, id>> /\ c' = c
             /\ PrintT(<<"T", ToJson(TokSeq(len, id))>>)
Spec == Init /\ [][Next]_<<c, j>>
=============================================================================

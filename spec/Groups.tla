------------------------------- MODULE Groups -------------------------------
(***************************************************************************)
(* The documented group-numbering rule as a function (C17).                *)
(* A pattern's group declarations, in order of their opening parenthesis:  *)
(*   [kind |-> "u" unnamed | "n" named | "k" explicitly numbered,          *)
(*    nm   |-> name (for "k": the decimal string), num |-> number ("k"),   *)
(*    x    |-> TRUE if the declaration is under ExplicitCapture]           *)
(* mode "default": unnamed groups are numbered 1,2,.. by opening           *)
(*   parenthesis, explicitly numbered groups keep their number, named      *)
(*   groups get the free numbers after them in order of first appearance.  *)
(* mode "order" (MaintainCaptureOrder, ECMAScript): every new group - an   *)
(*   explicit number counts as a name - gets the next number in pattern    *)
(*   order.  A repeated name designates the same group in both modes.      *)
(* Result: [num : declaration index -> group number (0 = not capturing),   *)
(*          numbers : ascending sequence of group numbers (with 0),        *)
(*          names   : name of each element of numbers,                     *)
(*          byName  : function name -> number]                             *)
(***************************************************************************)
EXTENDS Integers, Sequences, FiniteSets

Capturing(d) == d.kind # "u" \/ ~d.x

\* decimal string of a small natural number
Digit(k) == CASE k = 0 -> "0" [] k = 1 -> "1" [] k = 2 -> "2" [] k = 3 -> "3" [] k = 4 -> "4"
              [] k = 5 -> "5" [] k = 6 -> "6" [] k = 7 -> "7" [] k = 8 -> "8" [] k = 9 -> "9"
Dec(k) == IF k < 10 THEN Digit(k) ELSE Digit(k \div 10) \o Digit(k % 10)

MinFree(from, used) == CHOOSE a \in from..(from + Cardinality(used)) : a \notin used /\ \A b \in from..(a - 1) : b \in used

SortSet(S) == LET RECURSIVE Srt(_) Srt(T) == IF T = {} THEN <<>> ELSE LET m == CHOOSE x \in T : \A y \in T : x <= y IN <<m>> \o Srt(T \ {m})
              IN Srt(S)

FirstNames(ds, kinds) ==       \* distinct names of the declarations of the given kinds, in order of first appearance
  LET RECURSIVE Go(_,_)
      Go(i, acc) == IF i > Len(ds) THEN acc
                    ELSE IF ds[i].kind \in kinds /\ \A k \in 1..Len(acc) : acc[k] # ds[i].nm THEN Go(i + 1, Append(acc, ds[i].nm))
                    ELSE Go(i + 1, acc)
  IN Go(1, <<>>)

Numbering(ds, mode) ==
  LET n == Len(ds)
      U == {i \in 1..n : ds[i].kind = "u" /\ ~ds[i].x}
  IN
  IF mode = "default" THEN
    LET unum(i) == Cardinality({u \in U : u <= i})
        explicit == {ds[i].num : i \in {k \in 1..n : ds[k].kind = "k"}}
        used0 == {0} \cup {unum(i) : i \in U} \cup explicit
        names == FirstNames(ds, {"n"})
        RECURSIVE Assign(_,_,_,_)
        Assign(k, autocap, used, acc) ==
          IF k > Len(names) THEN acc
          ELSE LET a == MinFree(autocap, used) IN Assign(k + 1, a + 1, used \cup {a}, [acc EXCEPT ![k] = a])
        slotOfName == Assign(1, Cardinality(U) + 1, used0, [k \in 1..Len(names) |-> 0])
        nameSlot(nm) == slotOfName[CHOOSE k \in 1..Len(names) : names[k] = nm]
        num == [i \in 1..n |-> IF ds[i].kind = "u" THEN (IF ds[i].x THEN 0 ELSE unum(i))
                               ELSE IF ds[i].kind = "k" THEN ds[i].num ELSE nameSlot(ds[i].nm)]
        slots == used0 \cup {slotOfName[k] : k \in 1..Len(names)}
        numbers == SortSet(slots)
        nameOf(s) == IF \E k \in 1..Len(names) : slotOfName[k] = s
                     THEN names[CHOOSE k \in 1..Len(names) : slotOfName[k] = s] ELSE Dec(s)
    IN [num |-> num, numbers |-> numbers, names |-> [k \in 1..Len(numbers) |-> nameOf(numbers[k])]]
  ELSE
    LET names == FirstNames(ds, {"n", "k"})
        \* every new group consumes the next number: walk the declarations
        RECURSIVE Walk(_,_,_,_)
        Walk(i, autocap, seen, acc) ==      \* seen: function name -> slot (as a set of pairs)
          IF i > n THEN acc
          ELSE IF ds[i].kind = "u" THEN
                 (IF ds[i].x THEN Walk(i + 1, autocap, seen, [acc EXCEPT ![i] = 0])
                  ELSE Walk(i + 1, autocap + 1, seen, [acc EXCEPT ![i] = autocap]))
          ELSE IF \E p \in seen : p[1] = ds[i].nm
               THEN Walk(i + 1, autocap, seen, [acc EXCEPT ![i] = (CHOOSE p \in seen : p[1] = ds[i].nm)[2]])
               ELSE Walk(i + 1, autocap + 1, seen \cup {<<ds[i].nm, autocap>>}, [acc EXCEPT ![i] = autocap])
        num == Walk(1, 1, {}, [i \in 1..n |-> 0])
        slots == {0} \cup {num[i] : i \in {k \in 1..n : num[k] # 0}}
        numbers == SortSet(slots)
        nameOf(s) == IF \E i \in 1..n : num[i] = s /\ ds[i].kind # "u"
                     THEN ds[CHOOSE i \in 1..n : num[i] = s /\ ds[i].kind # "u"].nm ELSE Dec(s)
    IN [num |-> num, numbers |-> numbers, names |-> [k \in 1..Len(numbers) |-> nameOf(numbers[k])]]

\* the map is consistent: names are distinct, so name <-> number is a bijection on the groups
Consistent(g) == \A a, b \in 1..Len(g.names) : a # b => g.names[a] # g.names[b]
=============================================================================

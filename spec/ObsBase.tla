------------------------------ MODULE ObsBase ------------------------------
(***************************************************************************)
(* Plumbing shared by the Obs_* modules: observations recorded from the    *)
(* real code are read from the ND-JSON file named by the environment       *)
(* variable VERIF_OBS and checked record by record.  Records are spread    *)
(* over NChunks initial states so that TLC's workers check them in         *)
(* parallel; every record is one distinct state (c, j).                    *)
(***************************************************************************)
EXTENDS Integers, Sequences, TLC, Json, IOUtils

\* With several workers TLC re-evaluates constant definitions on every use (the cache of evaluated
\* constants is per tool instance).  TLCSet in an ASSUME is evaluated once per worker and TLCGet reads
\* that worker's copy, so the file is parsed once per worker instead of once per record.
ASSUME TLCSet(4, ndJsonDeserialize(IOEnv.VERIF_OBS))
Recs == TLCGet(4)
NRecs == Len(Recs)
NChunks == 64

ChunkOf(r) == ((r - 1) % NChunks) + 1
Report(tag, rec) == PrintT(<<tag, ToJson(rec)>>)
=============================================================================

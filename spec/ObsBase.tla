------------------------------ MODULE ObsBase ------------------------------
(***************************************************************************)
(* Plumbing shared by the Obs_* modules: observations recorded from the    *)
(* real code are read from the ND-JSON file named by the environment       *)
(* variable VERIF_OBS and checked record by record.  Records are spread    *)
(* over NChunks initial states so that TLC's workers check them in         *)
(* parallel; every record is one distinct state (c, j).                    *)
(***************************************************************************)
EXTENDS Integers, Sequences, TLC, Json, IOUtils

Recs == ndJsonDeserialize(IOEnv.VERIF_OBS)
NRecs == Len(Recs)
NChunks == 64

ChunkOf(r) == ((r - 1) % NChunks) + 1
Report(tag, rec) == PrintT(<<tag, ToJson(rec)>>)
=============================================================================

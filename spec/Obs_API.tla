------------------------------ MODULE Obs_API ------------------------------
(***************************************************************************)
(* Backward conformance for C02 / C07 / C08 / C09: one record holds what   *)
(* EVERY public entry point returned for one compiled pattern and one      *)
(* input; the record is accepted iff it is what API.tla derives from one   *)
(* search function.  For patterns of the exact fragment (r.exact) the      *)
(* search function is RegexSem.Find; otherwise it is the table of searches *)
(* recorded from FindRunesMatchStartingAt, and the checks are the stated   *)
(* relations between entry points.                                         *)
(* Every rejected fact is reported with a rule name:                       *)
(*   entry.*  (C02)   iter.* findall.* (C07)   wf.* (C08)                  *)
(*   replace.* split.* (C09)                                               *)
(***************************************************************************)
EXTENDS ObsBase, FiniteSets, RegexSem, Options, API

VARIABLES c, j

HasOp(p, op) == \E k \in 1..Len(p) : p[k].op = op

Conv(x, rtl) == IF x.ok THEN [ok |-> TRUE, idx |-> x.idx, len |-> x.len, caps |-> x.caps,
                              next |-> IF rtl THEN x.idx ELSE x.idx + x.len]
                ELSE None

Same(a, x) == x.err = "" /\ a.ok = x.ok /\ (a.ok => a.idx = x.idx /\ a.len = x.len /\ a.caps = x.caps)
SameSeq(M, X) == Len(M) = Len(X) /\ \A k \in 1..Len(M) : Same(M[k], X[k])
P4(a) == IF a.ok THEN [ok |-> TRUE, idx |-> a.idx, len |-> a.len, caps |-> a.caps] ELSE [ok |-> FALSE]
P4Seq(M) == [k \in 1..Len(M) |-> P4(M[k])]

RuneByteOffsets(s) ==
  LET RECURSIVE Off(_)
      Off(i) == IF i = 0 THEN 0 ELSE Off(i - 1) + (IF s[i] > 1114111 \/ s[i] < 0 \/ (55296 <= s[i] /\ s[i] <= 57343) THEN 3 ELSE Utf8Len(s[i]))
  IN [i \in 0..Len(s) |-> Off(i)]

\* C08 facts about one returned match x over input s with byte offsets off
WFProblems(x, s, off, tag) ==
  LET n == Len(s)
      span(cp) == <<off[cp[1]], off[cp[1] + cp[2]] - off[cp[1]]>>
  IN
  IF ~x.ok THEN {}
  ELSE IF ~MatchWF(x, n) THEN {<<"wf.bounds", tag>>}
  ELSE
    (IF x.g0 # << <<x.idx, x.len>> >> THEN {<<"wf.group0", tag>>} ELSE {})
    \cup (IF x.str # SubSeq(s, x.idx + 1, x.idx + x.len) \/ x.run # x.str THEN {<<"wf.text", tag>>} ELSE {})
    \cup (IF \E g \in 1..Len(x.caps) :
               x.emb[g] # (IF x.caps[g] = <<>> THEN <<0, 0>> ELSE x.caps[g][Len(x.caps[g])])
          THEN {<<"wf.embedded", tag>>} ELSE {})
    \cup (IF \E g \in 1..Len(x.caps) : x.gstr[g] # GroupText(x, s, g) THEN {<<"wf.grouptext", tag>>} ELSE {})
    \cup (IF x.b # span(<<x.idx, x.len>>) THEN {<<"wf.byterange", tag>>} ELSE {})
    \cup (IF \E g \in 1..Len(x.caps) : \E k \in 1..Len(x.caps[g]) : x.bcaps[g][k] # span(x.caps[g][k])
          THEN {<<"wf.byterange.capture", tag>>} ELSE {})

SeqProblems(X, s, off, tag) == UNION {WFProblems(X[k], s, off, tag) : k \in 1..Len(X)}

Pairs(M) == [k \in 1..Len(M) |-> <<M[k].idx, M[k].idx + M[k].len>>]
BytePairs(M, off) == [k \in 1..Len(M) |-> <<off[M[k].idx], off[M[k].idx + M[k].len]>>]

CheckCase(r, e, cs) ==
  LET s    == RunesOf(cs.b)
      n    == Len(s)
      off  == ByteOffsets(cs.b)
      roff == RuneByteOffsets(s)
      rtl  == r.rtl
      start0 == IF rtl THEN n ELSE 0
      hasG == HasOp(r.p, "G")
      \* ---- the search function
      SpecF(st, pl) == Find(e, s, st, pl, rtl)
      RealF(st, pl) == LET first == IF pl = 0 THEN (IF rtl THEN st - 1 ELSE st + 1) ELSE st IN
                       IF first < 0 \/ first > n THEN None ELSE Conv(cs.fra[first + 1], rtl)
      \* reference chain from the default start
      M == IF r.exact THEN AllMatches(SpecF, start0, n)
           ELSE IF ~hasG THEN AllMatches(RealF, start0, n)
           ELSE [k \in 1..Len(cs.iterr) |-> Conv(cs.iterr[k], rtl)]
      From(st) == IF r.exact THEN AllMatches(SpecF, st, n) ELSE AllMatches(RealF, st, n)
      ok(b, rule, tag) == IF b THEN {} ELSE {<<rule, ToString(tag)>>}
      first == IF M = <<>> THEN None ELSE M[1]
      names == [k \in 1..Len(r.names) |-> r.names[k]]
      nameMap == [nm \in {r.names[k] : k \in 1..Len(r.names)} |->
                    r.nums[CHOOSE k \in 1..Len(r.names) : r.names[k] = nm]]
      slots == {r.nums[k] : k \in 1..Len(r.nums)}
      SlotIdx(gn) == (CHOOSE k \in 1..Len(r.gnums) : r.gnums[k] = gn) - 1
      \* ---- C02: entry points agree
      entry ==
           ok(cs.ms.err = "" /\ cs.ms.v = (M # <<>>), "entry.MatchString", "")
      \cup ok(cs.mr.err = "" /\ cs.mr.v = (M # <<>>), "entry.MatchRunes", "")
      \cup ok(Same(first, cs.fs), "entry.FindStringMatch", "")
      \cup ok(Same(first, cs.fr), "entry.FindRunesMatch", "")
      \cup UNION {ok(Same(cs.fsa[k], cs.fra[k]) /\ Same(cs.fra[k], cs.fsa[k]), "entry.StartingAt.string-vs-runes", k - 1) : k \in 1..(n + 1)}
      \cup (IF r.exact THEN UNION {ok(Same(SpecF(k - 1, -1), cs.fra[k]), "entry.FindRunesMatchStartingAt", k - 1) : k \in 1..(n + 1)} ELSE {})
      \cup ok(SameSeq(M, cs.iter), "entry.FindNextMatch.string", "")
      \cup ok(SameSeq(M, cs.iterr), "entry.FindNextMatch.runes", "")
      \cup ok(SameSeq(M, cs.rf), "entry.ReplaceFunc.enumeration", "")
      \* ---- C07: iteration laws and find-all
      iter ==
           ok(~cs.hang, "iter.terminates", "")
      \cup ok(Len(cs.iterr) <= n + 1, "iter.count", Len(cs.iterr))
      \cup ok(Advancing(cs.iterr, rtl), "iter.advancing", "")
      \cup ok(NoRepeatedEmpty(cs.iterr), "iter.repeated-empty", "")
      \cup (IF r.exact \/ ~hasG THEN ok(SameSeq(M, cs.iterr), "iter.independent-search", "") ELSE {})
      \cup UNION {LET fa == cs.fari[k]  want == FindAll(M, fa.n, rtl) IN
                  ok(fa.err = "" /\ fa.v = Pairs(want) /\ (fa.n = 0 => fa.nil), "findall.runes", fa.n)
                  : k \in 1..Len(cs.fari)}
      \cup UNION {LET fa == cs.fai[k]  want == FindAll(M, fa.n, rtl) IN
                  ok(fa.err = "" /\ fa.v = BytePairs(want, off) /\ (fa.n = 0 => fa.nil), "findall.string", fa.n)
                  : k \in 1..Len(cs.fai)}
      \* ---- C08: well-formedness and index conversion
      wf ==
           SeqProblems(cs.iter, s, off, "FindNextMatch.string") \cup SeqProblems(cs.iterr, s, roff, "FindNextMatch.runes")
      \cup SeqProblems(cs.fsa, s, off, "StartingAt.string") \cup SeqProblems(cs.fra, s, roff, "StartingAt.runes")
      \cup SeqProblems(cs.rf, s, off, "ReplaceFunc") \cup WFProblems(cs.fs, s, off, "FindStringMatch")
      \cup WFProblems(cs.fr, s, roff, "FindRunesMatch")
      \* ---- C09: Replace / ReplaceFunc / Split are folds of the match sequence
      repl ==
        UNION {LET rp == cs.rep[k]
                   Ms == Take(IF rp.start < 0 THEN M ELSE From(rp.start), rp.count)
                   toks0 == ParseRepl(rp.r, slots, nameMap, IsWordCh)
                   \* group NUMBERS -> capture slots (they differ when the numbering is sparse)
                   toks == [t \in 1..Len(toks0) |-> IF toks0[t].k = "grp" THEN [toks0[t] EXCEPT !.g = SlotIdx(toks0[t].g)] ELSE toks0[t]]
                   want  == ReplaceWith(Ms, s, rtl, LAMBDA m : Expand(toks, m, s, SlotIdx(r.last)))
                   wantf == ReplaceWith(Ms, s, rtl, LAMBDA m : <<60>> \o GroupText(m, s, 0) \o <<62>>)
                   usable == r.exact \/ ~hasG \/ rp.start < 0
               IN IF ~usable THEN {}
                  ELSE ok(rp.err = "" /\ rp.out = want, IF rp.count = 0 THEN "replace.count0" ELSE IF rtl THEN "replace.fold.rtl" ELSE "replace.fold", k)
                       \cup ok(rp.errf = "" /\ rp.outf = wantf, IF rp.count = 0 THEN "replace.func.count0" ELSE "replace.func", k)
               : k \in 1..Len(cs.rep)}
      split ==
        UNION {LET sp == cs.split[k]
                   Ms == Take(M, sp.count)
               IN IF sp.count = 0 THEN ok(sp.err = "" /\ sp.nil, "split.count0", k)
                  ELSE IF sp.count = 1 THEN ok(sp.err = "" /\ sp.out = <<s>>, "split.count1", k)
                  ELSE ok(sp.err = "" /\ sp.out = SplitWith(IF rtl THEN Rev(Ms) ELSE Ms, s, r.ng), IF rtl THEN "split.fold.rtl" ELSE "split.fold", k)
               : k \in 1..Len(cs.split)}
  IN IF s # cs.r THEN {<<"DECODE", "">>}
     ELSE entry \cup iter \cup wf \cup repl \cup split

CheckRec(r) ==
  LET O == SeqToSet(r.o) IN
  IF r.exact /\ ~WF(r.p, O, r.dia) THEN Report("WFERR", [id |-> r.id, text |-> r.text])
  ELSE
  LET e == IF r.exact THEN Elab(r.p, O, r.dia) ELSE <<>>
      probs == [ci \in 1..Len(r.cases) |-> CheckCase(r, e, r.cases[ci])]
      nbad == Cardinality({ci \in 1..Len(r.cases) : probs[ci] # {}})
      nontriv == Cardinality({ci \in 1..Len(r.cases) : Len(r.cases[ci].iterr) >= 2})
  IN /\ \A ci \in 1..Len(r.cases) : \A pr \in probs[ci] :
          Report("BAD", [id |-> r.id, ci |-> ci, rule |-> pr[1], detail |-> pr[2]])
     /\ Report("REC", [id |-> r.id, cases |-> Len(r.cases), bad |-> nbad, nontrivial |-> nontriv])

Init == c \in 1..NChunks /\ j = 0
Next == /\ j = 0
        /\ \E r \in 1..NRecs : ChunkOf(r) = c /\ j' = r /\ c' = c /\ CheckRec(Recs[r])
Spec == Init /\ [][Next]_<<c, j>>
=============================================================================

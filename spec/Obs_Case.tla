------------------------------ MODULE Obs_Case ------------------------------
(***************************************************************************)
(* C20: a record is a metamorphic family under IgnoreCase: a pattern, an   *)
(* input, the base result, the results for case-flipped variants of the    *)
(* input (iv) and of the pattern (pv).  Every member must give the same    *)
(* outcome (existence, index, length, capture spans).  Inside the fragment *)
(* the outcome must also be the one RegexSem predicts, and the prediction  *)
(* itself must be invariant (the M leg, on the model).                     *)
(***************************************************************************)
EXTENDS ObsBase, FiniteSets, RegexSem, Options

VARIABLES c, j

SameReal(x, y) == x.ok = y.ok /\ ("err" \notin DOMAIN x) /\ ("err" \notin DOMAIN y)
                  /\ (x.ok => x.idx = y.idx /\ x.len = y.len /\ x.caps = y.caps)
SameRes(f, a) ==
  IF ~f.ok THEN ~a.ok /\ ("err" \notin DOMAIN a)
  ELSE a.ok /\ a.idx = f.idx /\ a.len = f.len /\ a.caps = f.caps
SameSpec(f, g) == f.ok = g.ok /\ (f.ok => f.idx = g.idx /\ f.len = g.len /\ f.caps = g.caps)

CheckRec(r) ==
  LET O == SeqToSet(r.o)
      st == IF r.rtl THEN Len(r.s) ELSE 0
      e == IF r.exact THEN Elab(r.p, O, "net") ELSE <<>>
      base == IF r.exact THEN Find(e, r.s, st, -1, r.rtl) ELSE None
      probs ==
           {<<"case.input-flip", k>> : k \in {k \in 1..Len(r.iv) : ~SameReal(r.iv[k].res, r.base)}}
      \cup {<<"case.pattern-flip", k>> : k \in {k \in 1..Len(r.pv) : r.pv[k].err # "" \/ ~SameReal(r.pv[k].res, r.base)}}
      \cup (IF r.exact /\ ~SameRes(base, r.base) THEN {<<"case.spec", 0>>} ELSE {})
      \cup (IF r.exact THEN {<<"SPECVARIANT", k>> : k \in {k \in 1..Len(r.iv) : ~SameSpec(Find(e, r.iv[k].s, st, -1, r.rtl), base)}} ELSE {})
      \cup (IF r.exact THEN {<<"SPECVARIANT", 100 + k>> : k \in {k \in 1..Len(r.pv) :
                 r.pv[k].err = "" /\ ~SameSpec(Find(Elab(r.pv[k].p, O, "net"), r.s, st, -1, r.rtl), base)}} ELSE {})
  IN IF r.exact /\ ~WF(r.p, O, "net") THEN Report("WFERR", [id |-> r.id, text |-> r.text])
     ELSE /\ \A p \in probs : Report("BAD", [id |-> r.id, rule |-> p[1], k |-> p[2]])
          /\ Report("REC", [id |-> r.id, members |-> 1 + Len(r.iv) + Len(r.pv), matched |-> r.base.ok])

Init == c \in 1..NChunks /\ j = 0
Next == /\ j = 0
        /\ \E r \in 1..NRecs : ChunkOf(r) = c /\ j' = r /\ c' = c /\ CheckRec(Recs[r])
Spec == Init /\ [][Next]_<<c, j>>
=============================================================================

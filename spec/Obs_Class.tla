----------------------------- MODULE Obs_Class -----------------------------
(***************************************************************************)
(* C16: a record holds a class expression, the options, and the membership *)
(* the REAL engine computes for it over all of Unicode (maximal ranges of  *)
(* {r : `\A[...]\z` matches the one-rune input r}) plus, for every other   *)
(* lookup path, the runes at which that path disagrees with the first.     *)
(* TLC compares with CharClass!InClass on: every rune up to U+024F, every  *)
(* breakpoint +-1 of the specification's and of the implementation's       *)
(* interval lists (both functions are piecewise constant between them, so  *)
(* agreement there is agreement everywhere), and - thorough tier - on      *)
(* every rune of the record's `full` range list.                           *)
(***************************************************************************)
EXTENDS ObsBase, CharClass

VARIABLES c, j

InReal(x, rs) == InRs(x, rs)

CheckRec(r) ==
  LET realEnds == UNION {{r.real[k][1], r.real[k][2]} : k \in 1..Len(r.real)}
      bps == Breaks(r.cls, r.dia) \cup realEnds
      dom0 == (0..591) \cup UNION {{b - 1, b, b + 1} : b \in bps} \cup UNION {(r.full[k][1])..(r.full[k][2]) : k \in 1..Len(r.full)}
      \* under IgnoreCase only where case folding has one agreed meaning: ASCII and simple upper/lower pairs
      dom == {x \in dom0 : x >= 0 /\ x <= MaxRune /\ (r.ic => (x < 128 \/ IsSimplePair(x) \/ (ToLower(x) = x /\ ToUpper(x) = x)))}
      bad == {x \in dom : InClass(x, r.cls, r.ic, r.dia) # InReal(x, r.real)}
      paths == {k \in 1..Len(r.paths) : r.paths[k].diff # <<>>}
  IN /\ (bad # {} => Report("BAD", [id |-> r.id, rule |-> "class.membership", n |-> Cardinality(bad),
                                     runes |-> LET m == CHOOSE x \in bad : \A y \in bad : x <= y IN <<m, InClass(m, r.cls, r.ic, r.dia)>>]))
     /\ \A k \in paths : Report("BAD", [id |-> r.id, rule |-> "class.path." \o r.paths[k].name, n |-> Len(r.paths[k].diff),
                                         runes |-> <<r.paths[k].diff[1], FALSE>>])
     /\ Report("REC", [id |-> r.id, runes |-> Cardinality(dom), members |-> Cardinality({x \in dom : InReal(x, r.real)})])

Init == c \in 1..NChunks /\ j = 0
Next == /\ j = 0
        /\ \E r \in 1..NRecs : ChunkOf(r) = c /\ j' = r /\ c' = c /\ CheckRec(Recs[r])
Spec == Init /\ [][Next]_<<c, j>>
=============================================================================

----------------------------- MODULE Obs_Class -----------------------------
(***************************************************************************)
(* C16: a record holds a class expression, the options, and the membership *)
(* the REAL engine computes for it over all of Unicode (maximal ranges of  *)
(* {r : `\A[...]\z` matches the one-rune input r}) plus, for every other   *)
(* lookup path, the runes at which that path disagrees with the first.     *)
(* TLC compares with CharClass!InClass on: every rune up to U+024F, every  *)
(* breakpoint +-1 of the specification's and of the implementation's       *)
(* interval lists (both functions are piecewise constant between them, so  *)
(* agreement there is agreement everywhere; under IgnoreCase this holds    *)
(* for the runes without case, and every rune with a case-fold orbit is    *)
(* compared individually), and - thorough tier - on every rune of the      *)
(* record's `full` range list.                                             *)
(***************************************************************************)
EXTENDS ObsBase, CharClass

VARIABLES c, j

InReal(x, rs) == InRs(x, rs)

\* the nearest rune without case at or beyond x in direction d
RECURSIVE Caseless(_,_)
Caseless(x, d) == IF x < 0 \/ x > MaxRune \/ ~IsCased(x) THEN x ELSE Caseless(x + d, d)

CheckRec(r) ==
  LET realEnds == UNION {{r.real[k][1], r.real[k][2]} : k \in 1..Len(r.real)}
      bps == Breaks(r.cls, r.dia) \cup realEnds
      dom0 == (0..591) \cup UNION {{b - 1, b, b + 1} : b \in bps} \cup UNION {(r.full[k][1])..(r.full[k][2]) : k \in 1..Len(r.full)}
      \* under IgnoreCase the specification's function is piecewise constant only on the caseless runes: every cased
      \* rune is compared, and next to every breakpoint the nearest caseless rune on either side
      cased == IF r.ic THEN {OrbitTab[k][1] : k \in 1..Len(OrbitTab)} \cup {304, 305} ELSE {}
      near == IF r.ic THEN UNION {{Caseless(b + 1, 1), Caseless(b - 1, -1)} : b \in bps} ELSE {}
      dom == {x \in dom0 \cup cased \cup near : x >= 0 /\ x <= MaxRune}
      bad == {x \in dom : InClass(x, r.cls, r.ic, r.dia) # InReal(x, r.real)}
      paths == {k \in 1..Len(r.paths) : r.paths[k].diff # <<>>}
  IN /\ (bad # {} => Report("BAD", [id |-> r.id, rule |-> "class.membership", n |-> Cardinality(bad),
                                     runes |-> LET m == CHOOSE x \in bad : \A y \in bad : x <= y IN <<m, InClass(m, r.cls, r.ic, r.dia)>>]))
     /\ \A k \in paths : Report("BAD", [id |-> r.id, rule |-> "class.path." \o r.paths[k].name, n |-> Len(r.paths[k].diff),
                                         runes |-> <<r.paths[k].diff[1], FALSE>>])
     /\ Report("REC", [id |-> r.id, runes |-> Cardinality(dom), members |-> Cardinality({x \in dom : InReal(x, r.real)})])

Init == c \in 1..NChunks /\ j = 0
Next == /\ j = 0
        /\ \E r \in 1..NRecs : ChunkOf(r) = c /\ j' = r /\ c' = c /\ CheckRec(Recs[r])
Spec == Init /\ [][Next]_<<c, j>>
=============================================================================

----------------------------- MODULE Obs_Clock -----------------------------
(***************************************************************************)
(* Trace validation for C14: the clock events recorded by the VerifOnPoint *)
(* hook (all emitted while fast.mu is held, so their order is the order of *)
(* the critical sections) must be a behaviour of Clock.tla projected onto  *)
(* the hook-visible variables (running, current, clockEnd):                *)
(*   clockStart   only when no clock goroutine is running (AtMostOneClock) *)
(*   clockTick    only while running; the stored time never goes back      *)
(*   clockExit    only while running and only when current > clockEnd     *)
(*   clockExtend  clockEnd never shrinks (only clockStop resets it)        *)
(*   clockRefresh only while the clock is not running                      *)
(*   clockStop    sets clockEnd to 0 iff a clock goroutine is running      *)
(* One record = one event list; a and b are the event's two arguments.     *)
(***************************************************************************)
EXTENDS ObsBase, FiniteSets

VARIABLES c, j

\* state threaded through the events: <<running, lastCurrent, clockEnd, index of the first bad event or 0>>
StepEv(st, e, k) ==
  LET running == st[1]  cur == st[2]  cend == st[3]  bad == st[4]
      fail == <<running, cur, cend, IF bad = 0 THEN k ELSE bad>>
  IN
  CASE e.ev = "clockStart"   -> IF running THEN fail ELSE <<TRUE, IF e.a > cur THEN e.a ELSE cur, e.b, bad>>
    [] e.ev = "clockTick"    -> IF ~running \/ e.a < cur THEN fail ELSE <<running, e.a, e.b, bad>>
    [] e.ev = "clockExit"    -> IF ~running \/ e.a <= e.b THEN fail ELSE <<FALSE, e.a, e.b, bad>>
    [] e.ev = "clockExtend"  -> IF e.b < cend \/ ~running THEN fail ELSE <<running, cur, e.b, bad>>
    [] e.ev = "clockRefresh" -> IF running \/ e.a < cur THEN fail ELSE <<running, e.a, cend, bad>>
    [] e.ev = "clockStop"    -> IF running /\ e.b # 0 THEN fail ELSE <<running, cur, e.b, bad>>
    [] OTHER -> fail

RECURSIVE Fold(_,_,_)
Fold(ev, k, st) == IF k > Len(ev) THEN st ELSE Fold(ev, k + 1, StepEv(st, ev[k], k))

CheckRec(r) ==
  LET fin == Fold(r.events, 1, <<FALSE, 0, 0, 0>>)
      starts == Cardinality({k \in 1..Len(r.events) : r.events[k].ev = "clockStart"})
      exits == Cardinality({k \in 1..Len(r.events) : r.events[k].ev = "clockExit"})
  IN /\ (fin[4] # 0 => Report("BAD", [id |-> r.id, rule |-> "clock.trace", k |-> fin[4], ev |-> r.events[fin[4]]]))
     /\ Report("REC", [id |-> r.id, events |-> Len(r.events), starts |-> starts, exits |-> exits])

Init == c \in 1..NChunks /\ j = 0
Next == /\ j = 0
        /\ \E r \in 1..NRecs : ChunkOf(r) = c /\ j' = r /\ c' = c /\ CheckRec(Recs[r])
Spec == Init /\ [][Next]_<<c, j>>
=============================================================================

----------------------------- MODULE Obs_Escape -----------------------------
(***************************************************************************)
(* C19: record = [s, e = Escape(s), u = Unescape(e), uerr, table]          *)
(*   table: for each option set keeping literal meaning, whether \A(?:e)\z *)
(*   compiles, matches s, and which one-edit neighbours of s it matches.   *)
(* Accepted iff Escape!Meaning(e) = s, u = s, and every table row says     *)
(* "matches exactly s" (under IgnoreCase: exactly the strings equal to s   *)
(* up to simple case).                                                     *)
(***************************************************************************)
EXTENDS ObsBase, Escape

VARIABLES c, j

FoldEq(a, b) == Len(a) = Len(b) /\ \A k \in 1..Len(a) : ToLower(a[k]) = ToLower(b[k]) \/ ToUpper(a[k]) = ToUpper(b[k])

CheckRec(r) ==
  LET probs ==
        (IF Meaning(r.e) # r.s THEN {"escape.meaning"} ELSE {})
        \cup (IF r.uerr # "" \/ r.u # r.s THEN {"escape.roundtrip"} ELSE {})
        \cup UNION {LET row == r.table[k] IN
                    (IF ~row.compiled THEN {"escape.compile." \o row.o} ELSE
                     (IF ~row.self THEN {"escape.literal.self." \o row.o} ELSE {})
                     \cup (IF \E q \in 1..Len(row.nb) :
                                row.nb[q].matched # (IF row.ic THEN FoldEq(row.nb[q].s, r.s) ELSE row.nb[q].s = r.s)
                           THEN {"escape.literal.other." \o row.o} ELSE {}))
                    : k \in 1..Len(r.table)}
  IN /\ \A p \in probs : Report("BAD", [id |-> r.id, rule |-> p])
     /\ Report("REC", [id |-> r.id, n |-> Len(r.s), rows |-> Len(r.table)])

Init == c \in 1..NChunks /\ j = 0
Next == /\ j = 0
        /\ \E r \in 1..NRecs : ChunkOf(r) = c /\ j' = r /\ c' = c /\ CheckRec(Recs[r])
Spec == Init /\ [][Next]_<<c, j>>
=============================================================================

----------------------------- MODULE Obs_Facts -----------------------------
(***************************************************************************)
(* C04: for every pattern record (table + facts exported from the real     *)
(* compile) TLC enumerates EVERY string over the record's alphabet up to   *)
(* its length bound (plus the record's longer, pattern-directed strings    *)
(* over the same alphabet) and EVERY attempt position, computes whether    *)
(* and how                                                                 *)
(* far the pattern matches there with RegexSem.Attempt (\G origin = the    *)
(* attempt position), and checks Facts!FactsHold at each real match.       *)
(***************************************************************************)
EXTENDS ObsBase, RegexSem, Options, RegexAST, Facts

VARIABLES c, j

CheckRec(r) ==
  LET O == SeqToSet(r.o) IN
  IF ~WF(r.p, O, r.dia) THEN Report("WFERR", [id |-> r.id, text |-> r.text])
  ELSE
  LET e == Elab(r.p, O, r.dia)
      strs == StrUpTo(r.alpha, r.maxlen) \o r.extra     \* exhaustive up to the bound, plus longer pattern-directed strings
      \* all (string index, position) pairs at which the pattern matches, with the violated facts
      bad == {x \in UNION {{<<si, pos>> : pos \in 0..Len(strs[si])} : si \in 1..Len(strs)} :
                LET s == strs[x[1]]  m == Attempt(e, s, x[2], x[2], r.rtl) IN
                m.ok /\ Violated(IF r.rtl THEN FactsHoldRTL(r.facts, s, x[2], m.pos)
                                 ELSE FactsHoldLTR(r.facts, s, x[2], m.pos)) # {}}
      nmatch == Cardinality({x \in UNION {{<<si, pos>> : pos \in 0..Len(strs[si])} : si \in 1..Len(strs)} :
                  Attempt(e, strs[x[1]], x[2], x[2], r.rtl).ok})
      one == CHOOSE x \in bad : \A y \in bad : Len(strs[x[1]]) <= Len(strs[y[1]])
  IN /\ (bad # {} =>
          LET s == strs[one[1]]  m == Attempt(e, s, one[2], one[2], r.rtl) IN
          Report("BAD", [id |-> r.id, s |-> s, pos |-> one[2], mend |-> m.pos, count |-> Cardinality(bad),
                         facts |-> Violated(IF r.rtl THEN FactsHoldRTL(r.facts, s, one[2], m.pos)
                                            ELSE FactsHoldLTR(r.facts, s, one[2], m.pos))]))
     /\ Report("REC", [id |-> r.id, strings |-> Len(strs), matches |-> nmatch, bad |-> Cardinality(bad)])

Init == c \in 1..NChunks /\ j = 0
Next == /\ j = 0
        /\ \E r \in 1..NRecs : ChunkOf(r) = c /\ j' = r /\ c' = c /\ CheckRec(Recs[r])
Spec == Init /\ [][Next]_<<c, j>>
=============================================================================

------------------------------ MODULE Obs_Find ------------------------------
(***************************************************************************)
(* Backward conformance for C01 / C15: every recorded result of            *)
(* FindRunesMatchStartingAt(pattern, input, start) must be exactly the     *)
(* match RegexSem.Find defines for the elaborated pattern.                 *)
(* record: [id, p, o, dia, rtl, text, cases: <<[s, res: <<r_0..r_len>>]>>] *)
(***************************************************************************)
EXTENDS ObsBase, FiniteSets, RegexSem, Options

VARIABLES c, j

SameRes(f, a) ==
  IF ~f.ok THEN ~a.ok /\ ("err" \notin DOMAIN a)
  ELSE a.ok /\ a.idx = f.idx /\ a.len = f.len /\ a.caps = f.caps

Proj(f) == IF f.ok THEN [ok |-> TRUE, idx |-> f.idx, len |-> f.len, caps |-> f.caps] ELSE [ok |-> FALSE]

\* non-trivial: a match exists and it is not simply "first attempt position, no captures"
NonTrivial(f, st) == f.ok /\ (f.idx # st \/ f.caps # <<>>)

CheckRec(r) ==
  LET O == SeqToSet(r.o) IN
  IF ~WF(r.p, O, r.dia) THEN Report("WFERR", [id |-> r.id, text |-> r.text])
  ELSE
  LET e == Elab(r.p, O, r.dia)
      nc == Len(r.cases)
      nst(ci) == Len(r.cases[ci].res)                       \* start offsets 0..nst-1
      \* every prediction is computed exactly once
      pred == [ci \in 1..nc |-> [k \in 1..nst(ci) |-> Find(e, r.cases[ci].s, k - 1, -1, r.rtl)]]
      bad == {b \in UNION {{<<ci, k>> : k \in 1..nst(ci)} : ci \in 1..nc} :
                ~SameRes(pred[b[1]][b[2]], r.cases[b[1]].res[b[2]])}
      total == LET RECURSIVE Sum(_) Sum(ci) == IF ci = 0 THEN 0 ELSE nst(ci) + Sum(ci - 1) IN Sum(nc)
      nat(ci) == IF r.rtl THEN nst(ci) ELSE 1                \* the natural starting offset (as index into pred)
      nontriv == Cardinality({ci \in 1..nc : NonTrivial(pred[ci][nat(ci)], nat(ci) - 1)})
  IN /\ \A b \in bad :
          Report("BAD", [id |-> r.id, text |-> r.text, o |-> r.o, dia |-> r.dia, rtl |-> r.rtl,
                         s |-> r.cases[b[1]].s, start |-> b[2] - 1,
                         pred |-> Proj(pred[b[1]][b[2]]),
                         real |-> r.cases[b[1]].res[b[2]]])
     /\ Report("REC", [id |-> r.id, cases |-> total, bad |-> Cardinality(bad), nontrivial |-> nontriv])

Init == c \in 1..NChunks /\ j = 0
Next == /\ j = 0
        /\ \E r \in 1..NRecs : ChunkOf(r) = c /\ j' = r /\ c' = c /\ CheckRec(Recs[r])
Spec == Init /\ [][Next]_<<c, j>>
=============================================================================

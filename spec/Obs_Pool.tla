------------------------------ MODULE Obs_Pool ------------------------------
(***************************************************************************)
(* Trace validation for C11 / C12 against Pool.tla.  Events come from the  *)
(* hooks, stamped with a global sequence number and the goroutine id:      *)
(*   scanStart(runner)  after initMatch (i.e. after Get/Select/Init): the  *)
(*                      runner is owned by that goroutine; `clean` = the   *)
(*                      projected runner state is the reset state          *)
(*   putRunner(runner)  just before the runner goes back to the pool, after *)
(*                      its program has been restored                      *)
(*   cacheGet / cacheAdd (under the cache mutex): list length, map size    *)
(* One record = the events of ONE object in sequence order (kind "runner") *)
(* or the cache events (kind "cache").  Because the events are logged      *)
(* after acquisition and before release, logged ownership intervals lie    *)
(* inside the real ones: an overlap in the log is an overlap in reality.   *)
(*   csEnter / csExit   (kind "cs") logged by the harness' own callback of  *)
(*                      a hook that sits inside a critical section, while  *)
(*                      the callback keeps the goroutine there: Pool.tla   *)
(*                      makes the cache lookup/insert ONE atomic step, so  *)
(*                      the sections of one object must be disjoint        *)
(* Rules: pool.owner (Pool!OneOwner), pool.clean (Pool!CleanAtScan),       *)
(* pool.code (Pool!IdleIsFull), cache.bound / cache.consistent,            *)
(* cache.atomic.                                                           *)
(***************************************************************************)
EXTENDS ObsBase, FiniteSets

VARIABLES c, j

\* state: <<owner goroutine or 0, first problem (rule index, event index) or <<>> >>
RunnerStep(st, e, k) ==
  LET owner == st[1]  bad == st[2]
      flag(rule) == IF bad = <<>> THEN <<rule, k>> ELSE bad
  IN
  IF e.ev = "scanStart" THEN
       IF owner # 0 /\ owner # e.g THEN <<owner, flag("pool.owner")>>
       ELSE IF ~e.clean THEN <<e.g, flag("pool.clean")>>
       ELSE <<e.g, bad>>
  ELSE \* putRunner
       IF owner # 0 /\ owner # e.g THEN <<0, flag("pool.owner")>>
       ELSE IF e.quick THEN <<0, flag("pool.code")>>
       ELSE <<0, bad>>

RECURSIVE FoldR(_,_,_)
FoldR(ev, k, st) == IF k > Len(ev) THEN st ELSE FoldR(ev, k + 1, RunnerStep(st, ev[k], k))

\* critical sections: state <<goroutine inside or 0, first problem>>
CsStep(st, e, k) ==
  LET inside == st[1]  bad == st[2]
      flag == IF bad = <<>> THEN <<"cache.atomic", k>> ELSE bad
  IN IF e.ev = "csEnter" THEN (IF inside # 0 THEN <<e.g, flag>> ELSE <<e.g, bad>>)
     ELSE (IF inside # e.g THEN <<0, flag>> ELSE <<0, bad>>)
RECURSIVE FoldC(_,_,_)
FoldC(ev, k, st) == IF k > Len(ev) THEN st ELSE FoldC(ev, k + 1, CsStep(st, ev[k], k))

CheckRec(r) ==
  IF r.kind = "cs" THEN
    LET fin == FoldC(r.events, 1, <<0, <<>>>>) IN
    /\ (fin[2] # <<>> => Report("BAD", [id |-> r.id, rule |-> fin[2][1], k |-> fin[2][2], ev |-> r.events[fin[2][2]]]))
    /\ Report("REC", [id |-> r.id, events |-> Len(r.events)])
  ELSE IF r.kind = "runner" THEN
    LET fin == FoldR(r.events, 1, <<0, <<>>>>) IN
    /\ (fin[2] # <<>> => Report("BAD", [id |-> r.id, rule |-> fin[2][1], k |-> fin[2][2], ev |-> r.events[fin[2][2]]]))
    /\ Report("REC", [id |-> r.id, events |-> Len(r.events)])
  ELSE
    LET badk == {k \in 1..Len(r.events) : r.events[k].a # r.events[k].b \/ (r.events[k].ev = "cacheAdd" /\ r.events[k].a > r.max)} IN
    /\ (badk # {} => LET k == CHOOSE x \in badk : \A y \in badk : x <= y IN
                     Report("BAD", [id |-> r.id, rule |-> IF r.events[k].a # r.events[k].b THEN "cache.consistent" ELSE "cache.bound", k |-> k, ev |-> r.events[k]]))
    /\ Report("REC", [id |-> r.id, events |-> Len(r.events)])

Init == c \in 1..NChunks /\ j = 0
Next == /\ j = 0
        /\ \E r \in 1..NRecs : ChunkOf(r) = c /\ j' = r /\ c' = c /\ CheckRec(Recs[r])
Spec == Init /\ [][Next]_<<c, j>>
=============================================================================

------------------------------ MODULE Obs_Rel ------------------------------
(***************************************************************************)
(* Backward conformance for C03 / C05 (and C13's black-box leg): the same  *)
(* pattern run in two configurations of the real engine.                   *)
(*   a = as shipped, b = a variant (naive scan: every position in scan     *)
(*   order attempted, no candidate search / prefix filter / min-length     *)
(*   cut-off / bump-along; tree rewrites gated off; code-gen analysis on)  *)
(* Rules:                                                                  *)
(*   rel.<variant>     a[k] # b[k] for some start offset k                 *)
(*   rel.naive.string  the STRING entry point (prefix filter on the raw     *)
(*                     string) differs from the naive scan                  *)
(*   rel.spec          (exact records) a[k] # RegexSem.Find                *)
(*   skip.live         a candidate search jumped over a position at which  *)
(*                     an attempt succeeds: the SkipTo contract - a search *)
(*                     from `from` may move to `to` only if every position *)
(*                     in between (scan order) is dead.  Liveness is the   *)
(*                     specification's Attempt inside the fragment, the    *)
(*                     naive scan's table outside (patterns without \G).   *)
(***************************************************************************)
EXTENDS ObsBase, FiniteSets, RegexSem, Options

VARIABLES c, j

HasOp(p, op) == \E k \in 1..Len(p) : p[k].op = op

SameRes(f, a) ==
  IF ~f.ok THEN ~a.ok /\ ("err" \notin DOMAIN a)
  ELSE a.ok /\ a.idx = f.idx /\ a.len = f.len /\ a.caps = f.caps
SameReal(x, y) == x.ok = y.ok /\ ("err" \notin DOMAIN x) /\ ("err" \notin DOMAIN y)
                  /\ (x.ok => x.idx = y.idx /\ x.len = y.len /\ x.caps = y.caps)

\* positions a candidate search skipped: from (inclusive) up to to (exclusive when a candidate was
\* found, inclusive otherwise), in scan order
Skipped(from, to, found, rtl) ==
  IF ~rtl THEN (IF found THEN from..(to - 1) ELSE from..to)
  ELSE (IF found THEN (to + 1)..from ELSE to..from)

CheckCase(r, e, cs, ci) ==
  LET n == Len(cs.s)
      hasG == r.hasg
      diff == {k \in 1..(n + 1) : ~SameReal(cs.a[k], cs.b[k])}
      strdiff == {k \in 1..(n + 1) : ~SameReal(cs.str[k], cs.b[k])}
      msbad == IF cs.ms = -1 THEN {0} ELSE IF (cs.ms = 1) # cs.b[IF r.rtl THEN n + 1 ELSE 1].ok THEN {0} ELSE {}
      spec == IF r.exact THEN {k \in 1..(n + 1) : ~SameRes(Find(e, cs.s, k - 1, -1, r.rtl), cs.a[k])} ELSE {}
      Live(pos, org) ==
        IF r.exact THEN Attempt(e, cs.s, pos, org, r.rtl).ok
        ELSE IF hasG THEN FALSE
        ELSE LET x == cs.b[pos + 1] IN x.ok /\ (IF r.rtl THEN x.idx + x.len = pos ELSE x.idx = pos)
      live == {k \in 1..Len(cs.skips) :
                 LET ev == cs.skips[k] IN
                 \E pos \in Skipped(ev[2], ev[3], ev[4] = 1, r.rtl) : pos >= 0 /\ pos <= n /\ Live(pos, ev[1])}
  IN  {<<"rel." \o r.variant, ci, k - 1>> : k \in diff}
      \cup (IF r.variant = "naive" THEN {<<"rel.naive.string", ci, k - 1>> : k \in strdiff} \cup {<<"rel.naive.matchstring", ci, 0>> : k \in msbad} ELSE {})
      \cup {<<"rel.spec", ci, k - 1>> : k \in spec}
      \cup {<<"skip.live", ci, cs.skips[k][1]>> : k \in live}

CheckRec(r) ==
  LET O == SeqToSet(r.o) IN
  IF r.exact /\ ~WF(r.p, O, r.dia) THEN Report("WFERR", [id |-> r.id, text |-> r.text])
  ELSE
  LET e == IF r.exact THEN Elab(r.p, O, r.dia) ELSE <<>>
      probs == UNION {CheckCase(r, e, r.cases[ci], ci) : ci \in 1..Len(r.cases)}
      total == LET RECURSIVE Sum(_) Sum(ci) == IF ci = 0 THEN 0 ELSE Len(r.cases[ci].a) + Sum(ci - 1) IN Sum(Len(r.cases))
      nskips == LET RECURSIVE Sum(_) Sum(ci) == IF ci = 0 THEN 0 ELSE Len(r.cases[ci].skips) + Sum(ci - 1) IN Sum(Len(r.cases))
      \* non-trivial: inputs on which the candidate search really skipped something, or that match
      nontriv == Cardinality({ci \in 1..Len(r.cases) :
                     (\E k \in 1..Len(r.cases[ci].skips) : r.cases[ci].skips[k][2] # r.cases[ci].skips[k][3])
                     \/ (\E k \in 1..Len(r.cases[ci].a) : r.cases[ci].a[k].ok)})
  IN /\ \A pr \in probs : Report("BAD", [id |-> r.id, ci |-> pr[2], rule |-> pr[1], start |-> pr[3]])
     /\ Report("REC", [id |-> r.id, cases |-> total, skips |-> nskips, bad |-> Cardinality(probs), nontrivial |-> nontriv])

Init == c \in 1..NChunks /\ j = 0
Next == /\ j = 0
        /\ \E r \in 1..NRecs : ChunkOf(r) = c /\ j' = r /\ c' = c /\ CheckRec(Recs[r])
Spec == Init /\ [][Next]_<<c, j>>
=============================================================================

----------------------------- MODULE Obs_Stack -----------------------------
(***************************************************************************)
(* C13: one record = one pattern and input run under many backtracking     *)
(* stack limits.  Black-box rules (the property's own clauses):            *)
(*   stack.panic     a run panicked                                        *)
(*   stack.result    a run that did not report the limit error returned    *)
(*                   something else than the unlimited run                 *)
(*   stack.cap       the stack grew beyond the limit                       *)
(*   stack.monotone  a larger limit turned a success into the limit error  *)
(*   stack.reuse     the same call repeated on the same Regexp differed,   *)
(*                   or the Regexp was unusable afterwards                 *)
(* Trace validation of the growth policy: the recorded growth steps of     *)
(* every run must be a behaviour of StackPolicy (policy "loop", first      *)
(* capacity InitCap, each step GrowTo, only when less than 4*tc slots are  *)
(* free, the limit error exactly when growth is impossible) - rule         *)
(* POLICY (drift between the specification and the code).                  *)
(***************************************************************************)
EXTENDS ObsBase, FiniteSets

VARIABLES c, j

Max(a, b) == IF a > b THEN a ELSE b
InitCap(t, l) == LET want == Max(8 * t, 64) IN IF l >= 0 /\ want > l THEN l ELSE want
GrowTo(cp, l) == LET d == IF cp = 0 THEN 1 ELSE 2 * cp IN IF l >= 0 /\ d > l THEN l ELSE d

Success(run) == run.outcome \in {"match", "nomatch"}
SameRes(x, y) == x.ok = y.ok /\ (x.ok => x.idx = y.idx /\ x.len = y.len /\ x.caps = y.caps)
Larger(a, b) == (b = -1 /\ a # -1) \/ (a # -1 /\ b # -1 /\ a < b)     \* limit b is larger than limit a

PolicyOK(run, tc) ==
  LET ev == run.events  n == Len(ev) IN
  /\ run.init = InitCap(tc, run.lim)
  /\ \A k \in 1..n :
       /\ ev[k][2] = (IF k = 1 THEN run.init ELSE ev[k - 1][3])     \* capacities are chained (a failed step keeps the capacity)
       /\ ev[k][2] - ev[k][1] < 4 * tc                              \* growth only when fewer than 4*tc slots are free
       /\ ev[k][3] = GrowTo(ev[k][2], run.lim)                       \* double, capped at the limit
  /\ (run.outcome = "limit") = (n > 0 /\ ev[n][3] <= ev[n][2])       \* the limit error exactly when a step cannot grow
  /\ \A k \in 1..(n - 1) : ev[k][3] > ev[k][2]                       \* only the last step may fail

CheckRec(r) ==
  LET nr == Len(r.runs)
      probs ==
           {<<"stack.panic", k>> : k \in {k \in 1..nr : r.runs[k].outcome \in {"panic", "error"}}}
      \cup {<<"stack.result", k>> : k \in {k \in 1..nr : Success(r.runs[k]) /\ ~SameRes(r.runs[k].res, r.unl)}}
      \cup {<<"stack.cap", k>> : k \in {k \in 1..nr : r.runs[k].lim >= 0 /\ r.runs[k].maxcap > r.runs[k].lim}}
      \cup {<<"stack.monotone", k>> : k \in {k \in 1..nr : r.runs[k].outcome = "limit" /\
                                               \E q \in 1..nr : Larger(r.runs[q].lim, r.runs[k].lim) /\ Success(r.runs[q])}}
      \cup {<<"stack.reuse", k>> : k \in {k \in 1..nr : ~r.runs[k].againok \/ ~r.runs[k].other}}
      \cup {<<"POLICY", k>> : k \in {k \in 1..nr : r.runs[k].outcome # "panic" /\ ~PolicyOK(r.runs[k], r.tc)}}
      grew == Cardinality({k \in 1..nr : r.runs[k].events # <<>>})
      limited == Cardinality({k \in 1..nr : r.runs[k].outcome = "limit"})
  IN /\ \A p \in probs : Report("BAD", [id |-> r.id, rule |-> p[1], k |-> p[2], lim |-> r.runs[p[2]].lim])
     /\ Report("REC", [id |-> r.id, runs |-> nr, grew |-> grew, limited |-> limited])

Init == c \in 1..NChunks /\ j = 0
Next == /\ j = 0
        /\ \E r \in 1..NRecs : ChunkOf(r) = c /\ j' = r /\ c' = c /\ CheckRec(Recs[r])
Spec == Init /\ [][Next]_<<c, j>>
=============================================================================

------------------------------ MODULE Obs_Tree ------------------------------
(***************************************************************************)
(* C05 (a): translation validation of the tree rewrites by model checking. *)
(* record = [p, o, dia, rtl, exact, alpha, maxlen, on, off]: the source    *)
(* table and the RegexTree the real parser produced with the rewrites      *)
(* (`on`) and with the rewrite gates switched on (`off`).  For EVERY       *)
(* string over alpha up to maxlen and EVERY attempt position               *)
(*     Sem(on) = Sem(off)                  (rule tree.rewrite)             *)
(*   and, inside the fragment, = Sem(Elab(source))   (rule tree.source)    *)
(* in position, end and all capture lists.                                 *)
(***************************************************************************)
EXTENDS ObsBase, TreeIR, Options, RegexAST

VARIABLES c, j

SameA(x, y) == x.ok = y.ok /\ (x.ok => x.pos = y.pos /\ x.caps = y.caps)
\* captures of groups the source numbers but a tree may lack (or vice versa) compare on the common prefix
Caps(x, n) == [g \in 1..n |-> IF g <= Len(x.caps) THEN x.caps[g] ELSE <<>>]
SameN(x, y, n) == x.ok = y.ok /\ (x.ok => x.pos = y.pos /\ Caps(x, n) = Caps(y, n))

CheckRec(r) ==
  IF ~Supported(r.on) \/ ~Supported(r.off) THEN Report("REC", [id |-> r.id, strings |-> 0, matches |-> 0, skipped |-> TRUE])
  ELSE
  LET O == SeqToSet(r.o)
      son == IRSem(r.on, r.dia)
      soff == IRSem(r.off, r.dia)
      src == IF r.exact /\ WF(r.p, O, r.dia) THEN Elab(r.p, O, r.dia) ELSE <<>>
      ng == LET a == NumGroups(son) b == NumGroups(soff) IN IF a > b THEN a ELSE b
      strs == StrUpTo(r.alpha, r.maxlen)
      pairs == UNION {{<<si, pos>> : pos \in 0..Len(strs[si])} : si \in 1..Len(strs)}
      A(tab, x) == Attempt(tab, strs[x[1]], x[2], x[2], r.rtl)
      badRw == {x \in pairs : ~SameN(A(son, x), A(soff, x), ng)}
      badSrc == IF src = <<>> THEN {} ELSE {x \in pairs : ~SameN(A(src, x), A(son, x), ng)}
      nmatch == Cardinality({x \in pairs : A(son, x).ok})
      pick(S) == CHOOSE x \in S : \A y \in S : Len(strs[x[1]]) <= Len(strs[y[1]])
  IN /\ (badRw # {} => LET x == pick(badRw) IN
            Report("BAD", [id |-> r.id, rule |-> "tree.rewrite", s |-> strs[x[1]], pos |-> x[2], count |-> Cardinality(badRw),
                           a |-> A(son, x), b |-> A(soff, x)]))
     /\ (badSrc # {} => LET x == pick(badSrc) IN
            Report("BAD", [id |-> r.id, rule |-> "tree.source", s |-> strs[x[1]], pos |-> x[2], count |-> Cardinality(badSrc),
                           a |-> A(src, x), b |-> A(son, x)]))
     /\ Report("REC", [id |-> r.id, strings |-> Len(strs), matches |-> nmatch, skipped |-> FALSE])

Init == c \in 1..NChunks /\ j = 0
Next == /\ j = 0
        /\ \E r \in 1..NRecs : ChunkOf(r) = c /\ j' = r /\ c' = c /\ CheckRec(Recs[r])
Spec == Init /\ [][Next]_<<c, j>>
=============================================================================

------------------------------ MODULE Options ------------------------------
(***************************************************************************)
(* Elaboration of a SOURCE node table under a set of options into the      *)
(* semantic node table interpreted by RegexSem.  This is the specification *)
(* of the parser's option stack, of the meaning of the option-dependent    *)
(* atoms ( . ^ $ \d \w \s \b \Z and literal case ), and of basic group     *)
(* numbering (unnamed groups by opening parenthesis, then named groups in  *)
(* order of first appearance; ExplicitCapture makes unnamed groups         *)
(* non-capturing).  Groups.tla generalises the numbering to explicit       *)
(* numbers and MaintainCaptureOrder.                                       *)
(*                                                                         *)
(* source node: [op, rs, neg, cls, min, max, lazy, kids, g, nm, on, off]   *)
(*   ops: chr sh dot caret dollar A Z z b B G empty cat alt rep grp look   *)
(*        nlook lookb nlookb atom ref condref condexp opt optset           *)
(* options O \subseteq {"i","m","s","n","x"}; dialect \in {"net","re2",    *)
(* "ecma"}.  "x" only changes the spelling (see the printer).              *)
(* The table must be in pre-order: kids have larger indices than parents.  *)
(***************************************************************************)
EXTENDS Integers, Sequences, FiniteSets, Unicode

SeqToSet(q) == {q[k] : k \in 1..Len(q)}

Parent(p, id) == CHOOSE q \in 1..Len(p) : \E j \in 1..Len(p[q].kids) : p[q].kids[j] = id
KidPos(p, q, id) == CHOOSE j \in 1..Len(p[q].kids) : p[q].kids[j] = id

Apply(O, n) == (O \cup SeqToSet(n.on)) \ SeqToSet(n.off)

\* options in effect at each node.  An inline (?on-off) item (optset) changes the options for the
\* following items of its concatenation (WF: such a concatenation is the whole body of a group,
\* look-around, quantified (?:..) or the pattern, so the change ends where the text group ends).
OptsAt(p, O) ==
  LET RECURSIVE At(_)
      At(id) ==
        IF id = 1 THEN O
        ELSE LET q == Parent(p, id)  oq == At(q) IN
             IF p[q].op = "opt" THEN Apply(oq, p[q])
             ELSE IF p[q].op = "cat" THEN
               LET j == KidPos(p, q, id)
                   RECURSIVE Acc(_,_)
                   Acc(k, o) == IF k >= j THEN o
                                ELSE LET sib == p[p[q].kids[k]] IN
                                     Acc(k + 1, IF sib.op = "optset" THEN Apply(o, sib) ELSE o)
               IN Acc(1, oq)
             ELSE oq
  IN [id \in 1..Len(p) |-> At(id)]

\* ---------------------------------------------------------------- group numbering (basic rule)
\* a balancing group (?<cap-uncap>..) (op "bal": nm = cap, cls = uncap) is a named capturing group when cap is not empty
IsCapturing(p, os, id) == \/ p[id].op = "grp" /\ (p[id].nm # "" \/ "n" \notin os[id])
                          \/ p[id].op = "bal" /\ p[id].nm # ""

UnnamedIds(p, os) == {id \in 1..Len(p) : IsCapturing(p, os, id) /\ p[id].nm = ""}
NamedIds(p, os)   == {id \in 1..Len(p) : IsCapturing(p, os, id) /\ p[id].nm # ""}
\* first declaration of each name
FirstNamed(p, os) == {id \in NamedIds(p, os) : \A j \in NamedIds(p, os) : p[j].nm = p[id].nm => id <= j}

Rank(S, x) == Cardinality({y \in S : y <= x})

GroupNumOf(p, os, id) ==
  IF ~IsCapturing(p, os, id) THEN 0
  ELSE IF p[id].nm = "" THEN Rank(UnnamedIds(p, os), id)
  ELSE LET first == CHOOSE j \in FirstNamed(p, os) : p[j].nm = p[id].nm IN
       Cardinality(UnnamedIds(p, os)) + Rank(FirstNamed(p, os), first)

NameNum(p, os, nm) ==
  LET S == {j \in FirstNamed(p, os) : p[j].nm = nm} IN
  IF S = {} THEN -1 ELSE GroupNumOf(p, os, CHOOSE j \in S : TRUE)

NumCaptureGroups(p, os) == Cardinality(UnnamedIds(p, os)) + Cardinality(FirstNamed(p, os))

\* ---------------------------------------------------------------- elaboration
AllRunes == << <<0, MaxRune>> >>

Sem(op, rs, neg, cls, ic, n, g) ==
  [op |-> op, rs |-> rs, neg |-> neg, cls |-> cls, ic |-> ic,
   min |-> n.min, max |-> n.max, lazy |-> n.lazy, kids |-> n.kids, g |-> g, ug |-> 0]

ShCls(dia, c) ==
  IF dia = "net" THEN c
  ELSE IF c \in {"s", "S"} THEN (IF dia = "re2" THEN (IF c = "s" THEN "rs" ELSE "rS")
                                                ELSE (IF c = "s" THEN "es" ELSE "eS"))
  ELSE IF c = "d" THEN "ed" ELSE IF c = "D" THEN "eD" ELSE IF c = "w" THEN "ew" ELSE "eW"

ElabNode(p, os, dia, id) ==
  LET n == p[id]  o == os[id]  ic == "i" \in o
      plain(op) == Sem(op, <<>>, FALSE, "", FALSE, n, 0)
  IN
  CASE n.op = "chr"    -> Sem("chr", n.rs, n.neg, IF n.cls = "" THEN "" ELSE ShCls(dia, n.cls), ic, n, 0)   \* cls: a shorthand written inside the class
    [] n.op = "sh"     -> Sem("chr", <<>>, FALSE, ShCls(dia, n.cls), FALSE, n, 0)
    [] n.op = "dot"    -> IF "s" \in o THEN Sem("chr", AllRunes, FALSE, "", FALSE, n, 0)
                          ELSE IF dia = "ecma"
                               THEN Sem("chr", << <<10,10>>, <<13,13>> >>, TRUE, "", FALSE, n, 0)
                               ELSE Sem("chr", << <<10,10>> >>, TRUE, "", FALSE, n, 0)
    [] n.op = "caret"  -> plain(IF "m" \in o THEN "bol" ELSE "beg")
    [] n.op = "dollar" -> plain(IF "m" \in o THEN "eol" ELSE IF dia = "net" THEN "endz" ELSE "end")
    [] n.op = "A"      -> plain("beg")
    [] n.op = "Z"      -> plain(IF dia = "net" THEN "endz" ELSE "end")
    [] n.op = "z"      -> plain("end")
    [] n.op = "G"      -> plain("start")
    [] n.op = "b"      -> plain(IF dia = "ecma" THEN "ewb" ELSE IF dia = "re2" THEN "awb" ELSE "wb")
    [] n.op = "B"      -> plain(IF dia = "ecma" THEN "newb" ELSE IF dia = "re2" THEN "nawb" ELSE "nwb")
    [] n.op = "grp"    -> Sem("grp", <<>>, FALSE, "", FALSE, n, GroupNumOf(p, os, id))
    [] n.op = "opt"    -> Sem("grp", <<>>, FALSE, "", FALSE, n, 0)
    [] n.op = "bal"    -> [Sem("bal", <<>>, FALSE, "", FALSE, n, GroupNumOf(p, os, id)) EXCEPT !.ug = NameNum(p, os, n.cls)]
    [] n.op = "optset" -> plain("empty")
    [] n.op \in {"ref", "condref"} ->
         Sem(n.op, <<>>, FALSE, "", ic, n, IF n.g > 0 THEN n.g ELSE NameNum(p, os, n.nm))
    [] OTHER           -> plain(n.op)     \* cat alt rep look nlook lookb nlookb atom condexp empty nothing

Elab(p, O, dia) ==
  LET os == OptsAt(p, O) IN [id \in 1..Len(p) |-> ElabNode(p, os, dia, id)]

\* ---------------------------------------------------------------- well-formedness of source tables
Subtree(p, id) ==
  LET RECURSIVE Sub(_)
      Sub(x) == {x} \cup UNION {Sub(p[x].kids[j]) : j \in 1..Len(p[x].kids)}
  IN Sub(id)

PreOrder(p) == \A id \in 1..Len(p) : \A j \in 1..Len(p[id].kids) :
                  /\ p[id].kids[j] > id
                  /\ (j > 1 => p[id].kids[j] > p[id].kids[j-1])

\* every reference designates a capturing group that exists
RefsResolve(p, O, dia) ==
  LET os == OptsAt(p, O)  e == Elab(p, O, dia) IN
  /\ \A id \in 1..Len(p) : p[id].op \in {"ref", "condref"} =>
        e[id].g >= 1 /\ e[id].g <= NumCaptureGroups(p, os)
  /\ \A id \in 1..Len(p) : p[id].op = "bal" => e[id].ug >= 1

\* inline option items only where their textual scope equals their concatenation
OptsetPlacement(p) ==
  \A id \in 2..Len(p) : p[id].op = "optset" =>
     LET q == Parent(p, id) IN
       /\ p[q].op = "cat"
       /\ (q = 1 \/ p[Parent(p, q)].op \in {"grp", "opt", "look", "nlook", "lookb", "nlookb", "atom", "rep"})

WF(p, O, dia) == PreOrder(p) /\ RefsResolve(p, O, dia) /\ OptsetPlacement(p)
=============================================================================

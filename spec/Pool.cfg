SPECIFICATION Spec
CONSTANTS
  Gor = {1, 2, 3}
  Kinds = {"find", "bool", "err", "repl"}
  MaxCalls = 2
  Runners = {1, 2, 3}
  Keys = {"k1"}
  MaxLRU = 2
  Recheck = TRUE
INVARIANTS OneOwner NotIdleHeld IdleIsFull CleanAtScan RightProgram LRUBounded LRUConsistent
CHECK_DEADLOCK FALSE

-------------------------------- MODULE Pool --------------------------------
(***************************************************************************)
(* The reusable state behind a Regexp (C11, C12) as a state machine: the   *)
(* per-Regexp pool of interpreter states (runners), whose `code` field is  *)
(* switched to the bool-only program by some calls and must be switched    *)
(* back, and whose stacks / match object / balancing flag survive from one *)
(* call to the next; the replacement-data LRU.                             *)
(*                                                                         *)
(* Goroutines execute calls of kinds                                       *)
(*   "find"  full program, returns a match (the runner's match object      *)
(*           leaves with the caller)                                       *)
(*   "bool"  bool-only program (quick code), match object stays            *)
(*   "err"   the scan ends with an error (timeout, stack limit) in the     *)
(*           middle of an attempt: stacks and captures are left as they    *)
(*           are                                                           *)
(*   "repl"  looks the replacement up in the LRU (CacheGet, one critical   *)
(*           section), on a miss parses it outside any lock and inserts it *)
(*           (CacheAdd, a second critical section that looks the key up    *)
(*           again, since another goroutine may have inserted it in        *)
(*           between), then scans                                          *)
(* Steps of a call: Get (take an idle runner or make one), Select (switch  *)
(* to the quick code), Init (initMatch: reset), Scan, Put (restore code,   *)
(* return to pool).  sync.Pool may drop idle runners at any time.          *)
(*                                                                         *)
(* Properties                                                              *)
(*   OneOwner        a runner is used by at most one goroutine             *)
(*   IdleIsFull      an idle runner always carries the full program        *)
(*   CleanAtScan     the state the first opcode sees is the reset state,   *)
(*                   whatever the previous call on that runner did         *)
(*   RightProgram    a call runs the program its kind requires             *)
(*   LRUBounded / LRUConsistent                                            *)
(***************************************************************************)
EXTENDS Integers, Sequences, FiniteSets, TLC

CONSTANTS Gor,        \* goroutines
          Kinds,      \* call kinds each goroutine may issue
          MaxCalls,   \* calls per goroutine
          Runners,    \* universe of runner identities
          Keys,       \* replacement strings
          MaxLRU,
          Recheck     \* TRUE: CacheAdd looks the key up again (the code as written); FALSE: it inserts blindly

VARIABLES idle,      \* runners in the pool
          made,      \* runners that exist
          code,      \* runner -> "full" | "quick"
          dirty,     \* runner -> does it carry state of an unfinished / previous attempt?
          hasMatch,  \* runner -> does it still hold a recycled match object?
          pc, cur, held, ncalls,   \* per goroutine: step, current call kind, runner held, calls made
          lru,       \* sequence of keys, most recent first
          ckey,      \* per goroutine: the replacement string of the current "repl" call
          sawClean, ranCode        \* observations of the last scan per goroutine
vars == <<idle, made, code, dirty, hasMatch, pc, cur, held, ncalls, lru, ckey, sawClean, ranCode>>

NoRunner == 0

Init == /\ idle = {} /\ made = {}
        /\ code = [r \in Runners |-> "full"] /\ dirty = [r \in Runners |-> FALSE] /\ hasMatch = [r \in Runners |-> FALSE]
        /\ pc = [g \in Gor |-> "idle"] /\ cur = [g \in Gor |-> "find"] /\ held = [g \in Gor |-> NoRunner]
        /\ ncalls = [g \in Gor |-> 0] /\ lru = <<>> /\ ckey = [g \in Gor |-> CHOOSE k \in Keys : TRUE]
        /\ sawClean = [g \in Gor |-> TRUE] /\ ranCode = [g \in Gor |-> "full"]

Begin(g, k) == /\ pc[g] = "idle" /\ ncalls[g] < MaxCalls
               /\ cur' = [cur EXCEPT ![g] = k] /\ ncalls' = [ncalls EXCEPT ![g] = @ + 1]
               /\ IF k = "repl" THEN \E key \in Keys : ckey' = [ckey EXCEPT ![g] = key] ELSE UNCHANGED ckey
               /\ pc' = [pc EXCEPT ![g] = IF k = "repl" THEN "cget" ELSE "get"]
               /\ UNCHANGED <<idle, made, code, dirty, hasMatch, held, lru, sawClean, ranCode>>

\* replacement cache.  Each of the two steps is one critical section of the cache mutex (that they are atomic is what
\* Obs_Pool's rule cache.atomic checks on the real code); nothing is held between them.
InLRU(key) == \E i \in 1..Len(lru) : lru[i] = key
ToFront(key) == <<key>> \o SelectSeq(lru, LAMBDA x : x # key)
CacheGet(g) == /\ pc[g] = "cget"
               /\ IF InLRU(ckey[g]) THEN lru' = ToFront(ckey[g]) /\ pc' = [pc EXCEPT ![g] = "get"]       \* hit: move to front
                                     ELSE UNCHANGED lru /\ pc' = [pc EXCEPT ![g] = "cadd"]                \* miss: parse, then add
               /\ UNCHANGED <<idle, made, code, dirty, hasMatch, cur, held, ncalls, ckey, sawClean, ranCode>>
CacheAdd(g) == /\ pc[g] = "cadd"
               /\ lru' = IF Recheck /\ InLRU(ckey[g]) THEN ToFront(ckey[g])
                          ELSE LET ins == <<ckey[g]>> \o lru IN IF Len(ins) > MaxLRU THEN SubSeq(ins, 1, MaxLRU) ELSE ins
               /\ pc' = [pc EXCEPT ![g] = "get"]
               /\ UNCHANGED <<idle, made, code, dirty, hasMatch, cur, held, ncalls, ckey, sawClean, ranCode>>

Get(g) == /\ pc[g] = "get"
          /\ \/ \E r \in idle : idle' = idle \ {r} /\ held' = [held EXCEPT ![g] = r] /\ UNCHANGED made
             \/ \E r \in Runners \ made : made' = made \cup {r} /\ held' = [held EXCEPT ![g] = r] /\ UNCHANGED idle
          /\ pc' = [pc EXCEPT ![g] = "select"]
          /\ UNCHANGED <<code, dirty, hasMatch, cur, ncalls, lru, ckey, sawClean, ranCode>>

Select(g) == /\ pc[g] = "select"
             /\ code' = IF cur[g] = "bool" THEN [code EXCEPT ![held[g]] = "quick"] ELSE code
             /\ pc' = [pc EXCEPT ![g] = "init"]
             /\ UNCHANGED <<idle, made, dirty, hasMatch, cur, held, ncalls, lru, ckey, sawClean, ranCode>>

\* initMatch: reuse or create the match object, reset it, reset the three stack positions
InitM(g) == /\ pc[g] = "init"
            /\ dirty' = [dirty EXCEPT ![held[g]] = FALSE]
            /\ hasMatch' = [hasMatch EXCEPT ![held[g]] = TRUE]
            /\ pc' = [pc EXCEPT ![g] = "scan"]
            /\ UNCHANGED <<idle, made, code, cur, held, ncalls, lru, ckey, sawClean, ranCode>>

Scan(g) == /\ pc[g] = "scan"
           /\ sawClean' = [sawClean EXCEPT ![g] = ~dirty[held[g]]]
           /\ ranCode' = [ranCode EXCEPT ![g] = code[held[g]]]
           /\ dirty' = [dirty EXCEPT ![held[g]] = TRUE]                       \* stacks, captures, balancing flag are used
           /\ hasMatch' = [hasMatch EXCEPT ![held[g]] = (cur[g] # "find")]    \* a returned match leaves with the caller
           /\ pc' = [pc EXCEPT ![g] = "put"]
           /\ UNCHANGED <<idle, made, code, cur, held, ncalls, lru, ckey>>

Put(g) == /\ pc[g] = "put"
          /\ code' = [code EXCEPT ![held[g]] = "full"]
          /\ idle' = idle \cup {held[g]}
          /\ held' = [held EXCEPT ![g] = NoRunner]
          /\ pc' = [pc EXCEPT ![g] = "idle"]
          /\ UNCHANGED <<made, dirty, hasMatch, cur, ncalls, lru, ckey, sawClean, ranCode>>

Drop == /\ \E r \in idle : idle' = idle \ {r}
        /\ UNCHANGED <<made, code, dirty, hasMatch, pc, cur, held, ncalls, lru, ckey, sawClean, ranCode>>

Next == \/ \E g \in Gor : \/ \E k \in Kinds : Begin(g, k)
                          \/ CacheGet(g) \/ CacheAdd(g)
                          \/ Get(g) \/ Select(g) \/ InitM(g) \/ Scan(g) \/ Put(g)
        \/ Drop
Spec == Init /\ [][Next]_vars

OneOwner     == \A g1, g2 \in Gor : g1 # g2 /\ held[g1] # NoRunner => held[g1] # held[g2]
NotIdleHeld  == \A g \in Gor : held[g] # NoRunner => held[g] \notin idle
IdleIsFull   == \A r \in idle : code[r] = "full"
CleanAtScan  == \A g \in Gor : sawClean[g]
RightProgram == \A g \in Gor : pc[g] = "put" => ranCode[g] = (IF cur[g] = "bool" THEN "quick" ELSE "full")
LRUBounded   == Len(lru) <= MaxLRU
LRUConsistent == \A i, k \in 1..Len(lru) : i # k => lru[i] # lru[k]
=============================================================================

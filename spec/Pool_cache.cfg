SPECIFICATION Spec
CONSTANTS
  Gor = {1, 2, 3}
  Kinds = {"repl"}
  MaxCalls = 3
  Runners = {1, 2, 3}
  Keys = {"k1", "k2", "k3"}
  MaxLRU = 2
  Recheck = TRUE
INVARIANTS OneOwner NotIdleHeld LRUBounded LRUConsistent
CHECK_DEADLOCK FALSE

SPECIFICATION Spec
CONSTANTS
  Gor = {1, 2}
  Kinds = {"repl"}
  MaxCalls = 2
  Runners = {1, 2}
  Keys = {"k1", "k2"}
  MaxLRU = 2
  Recheck = FALSE
INVARIANTS LRUBounded LRUConsistent
CHECK_DEADLOCK FALSE

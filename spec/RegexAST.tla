------------------------------ MODULE RegexAST ------------------------------
(***************************************************************************)
(* Source-level pattern trees, their flattening into node tables, and the  *)
(* combinators from which the generator modules Gen_xxx build bounded      *)
(* pattern families as INDEXED SEQUENCES (never as sets of records: a      *)
(* family is enumerated by an integer index, see DESIGN.md section 3).     *)
(***************************************************************************)
EXTENDS Integers, Sequences, FiniteSets

N0 == [op |-> "", rs |-> <<>>, neg |-> FALSE, cls |-> "", min |-> 0, max |-> 0, lazy |-> FALSE,
       kids |-> <<>>, g |-> 0, nm |-> "", on |-> <<>>, off |-> <<>>]

Op(o)        == [N0 EXCEPT !.op = o]
Chr(c)       == [N0 EXCEPT !.op = "chr", !.rs = << <<c, c>> >>]
Cls(rs, neg) == [N0 EXCEPT !.op = "chr", !.rs = rs, !.neg = neg]
ClsSub(rs, neg, sub) == [N0 EXCEPT !.op = "chr", !.rs = rs, !.neg = neg, !.kids = <<sub>>]   \* [rs-[sub]]
Sh(c)        == [N0 EXCEPT !.op = "sh", !.cls = c]
Dot          == Op("dot")
Empty        == Op("empty")
Un(o, k)     == [N0 EXCEPT !.op = o, !.kids = <<k>>]              \* grp look nlook lookb nlookb atom
Grp(k)       == Un("grp", k)
Named(nm, k) == [N0 EXCEPT !.op = "grp", !.kids = <<k>>, !.nm = nm]
Cat2(a, b)   == [N0 EXCEPT !.op = "cat", !.kids = <<a, b>>]
Cat3(a, b, c) == [N0 EXCEPT !.op = "cat", !.kids = <<a, b, c>>]
CatS(ks)     == [N0 EXCEPT !.op = "cat", !.kids = ks]
Alt2(a, b)   == [N0 EXCEPT !.op = "alt", !.kids = <<a, b>>]
AltS(ks)     == [N0 EXCEPT !.op = "alt", !.kids = ks]
Rep(k, q)    == [N0 EXCEPT !.op = "rep", !.kids = <<k>>, !.min = q[1], !.max = q[2], !.lazy = q[3]]
Ref(n)       == [N0 EXCEPT !.op = "ref", !.g = n]
RefNm(nm)    == [N0 EXCEPT !.op = "ref", !.nm = nm]
CondRef(n, y, no) == [N0 EXCEPT !.op = "condref", !.g = n, !.kids = <<y, no>>]
CondExp(t, y, no) == [N0 EXCEPT !.op = "condexp", !.kids = <<t, y, no>>]
OptG(on, off, k)  == [N0 EXCEPT !.op = "opt", !.on = on, !.off = off, !.kids = <<k>>]
OptSet(on, off)   == [N0 EXCEPT !.op = "optset", !.on = on, !.off = off]

\* ---------------------------------------------------------------- trees -> tables (pre-order)
RECURSIVE Size(_)
Size(t) == LET nk == Len(t.kids)
               RECURSIVE S(_)
               S(j) == IF j > nk THEN 0 ELSE Size(t.kids[j]) + S(j + 1)
           IN 1 + S(1)

RECURSIVE Flat(_,_)
Flat(t, base) ==      \* the nodes of t in pre-order; the root gets index base + 1
  LET nk == Len(t.kids)
      RECURSIVE Off(_)
      Off(j) == IF j = 1 THEN base + 1 ELSE Off(j - 1) + Size(t.kids[j - 1])
      RECURSIVE Rest(_)
      Rest(j) == IF j > nk THEN <<>> ELSE Flat(t.kids[j], Off(j)) \o Rest(j + 1)
  IN <<[t EXCEPT !.kids = [j \in 1..nk |-> Off(j) + 1]]>> \o Rest(1)

Table(t) == Flat(t, 0)

\* ---------------------------------------------------------------- syntactic predicates on trees
RECURSIVE Nullable(_)
Nullable(t) ==
  CASE t.op \in {"chr", "sh", "dot"} -> FALSE
    [] t.op = "cat"  -> \A j \in 1..Len(t.kids) : Nullable(t.kids[j])
    [] t.op = "alt"  -> \E j \in 1..Len(t.kids) : Nullable(t.kids[j])
    [] t.op = "rep"  -> t.min = 0 \/ Nullable(t.kids[1])
    [] t.op \in {"grp", "atom", "opt", "bal"} -> Nullable(t.kids[1])
    [] t.op = "condref" -> Nullable(t.kids[1]) \/ Nullable(t.kids[2])
    [] t.op = "condexp" -> Nullable(t.kids[2]) \/ Nullable(t.kids[3])
    [] OTHER -> TRUE

\* what the reducer sees through when it multiplies directly nested quantifiers; under ExplicitCapture (ncg) an
\* unnamed group is an ordinary non-capturing group
RECURSIVE Strip(_,_)
Strip(t, ncg) == IF t.op \in {"opt", "atom"} \/ (t.op = "cat" /\ Len(t.kids) = 1) \/ (ncg /\ t.op = "grp" /\ t.nm = "")
                 THEN Strip(t.kids[1], ncg) ELSE t

\* the C01 fragment is the whole documented syntax.  (Two exclusions of earlier rounds are gone: nullable quantifier operands -
\* the engine's empty-iteration rule is part of RegexSem - and directly nested quantifiers, which the reducer multiplies,
\* keeping the language but not the priority order: that deviation is now a listed finding, attributed through the gate
\* no-loop-multiplication, instead of a hole in the domain.)
InFragment(t, ncg) == TRUE

\* C06's domain ("no quantified nullable sub-pattern", and nothing the reducer multiplies): on these patterns leftmost-first
\* (Go's regexp) and backtracking semantics provably coincide
RECURSIVE NoNullableOperand(_,_)
NoNullableOperand(t, ncg) ==
  /\ \A j \in 1..Len(t.kids) : NoNullableOperand(t.kids[j], ncg)
  /\ t.op = "rep" => ~Nullable(t.kids[1]) /\ Strip(t.kids[1], ncg).op # "rep"

\* ---------------------------------------------------------------- indexed-sequence combinators
Map1(f(_), A)       == [i \in 1..Len(A) |-> f(A[i])]
Prod2(f(_,_), A, B) == [i \in 1..(Len(A) * Len(B)) |-> f(A[((i - 1) \div Len(B)) + 1], B[((i - 1) % Len(B)) + 1])]
Prod3(f(_,_,_), A, B, C) ==
  [i \in 1..(Len(A) * Len(B) * Len(C)) |->
     f(A[((i - 1) \div (Len(B) * Len(C))) + 1], B[(((i - 1) \div Len(C)) % Len(B)) + 1], C[((i - 1) % Len(C)) + 1])]

\* all strings over alphabet A (a sequence of code points) of length exactly n / at most n, in a fixed order
RECURSIVE StrN(_,_)
StrN(A, n) == IF n = 0 THEN << <<>> >> ELSE Prod2(LAMBDA s, c : Append(s, c), StrN(A, n - 1), A)
RECURSIVE StrUpTo(_,_)
StrUpTo(A, n) == IF n = 0 THEN << <<>> >> ELSE StrUpTo(A, n - 1) \o StrN(A, n)
=============================================================================

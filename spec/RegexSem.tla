------------------------------ MODULE RegexSem ------------------------------
(***************************************************************************)
(* Reference semantics of the regexp2 matcher: leftmost, priority-ordered  *)
(* backtracking, written as a first-success depth-first search over a      *)
(* defunctionalised continuation.                                          *)
(*                                                                         *)
(* A pattern is an ELABORATED node table (see Options.tla: Elab): a        *)
(* sequence of records                                                     *)
(*   [op, rs, neg, cls, ic, min, max, lazy, kids, g]                       *)
(* root = 1, kids are indices.  Characters are code points (integers), an  *)
(* input is a sequence of code points, a position i \in 0..Len(s) lies     *)
(* between s[i] and s[i+1].                                                *)
(*                                                                         *)
(* ops:  chr  (class: ranges rs, shorthand cls, negation neg, ignore-case) *)
(*       cat alt rep grp atom look nlook lookb nlookb ref condref condexp  *)
(*       empty nothing                                                     *)
(*       beg (\A) bol (^ multiline) end (\z) endz (\Z, $) eol ($ multi-    *)
(*       line) start (\G) wb nwb (\b \B) ewb newb (ECMAScript \b \B)       *)
(*       awb nawb (RE2 \b \B: ASCII word characters)                       *)
(***************************************************************************)
EXTENDS Integers, Sequences, FiniteSets, Unicode

NL == 10

\* ---------------------------------------------------------------- character classes
InRanges(c, rs) == \E k \in 1..Len(rs) : rs[k][1] <= c /\ c <= rs[k][2]

AsciiWord(c)    == (48 <= c /\ c <= 57) \/ (65 <= c /\ c <= 90) \/ c = 95 \/ (97 <= c /\ c <= 122)
\* (below 128 the Unicode tables reduce to the ASCII sets; the shortcut only saves table searches)
IsECMAWordCh(c) == IF c < 128 THEN AsciiWord(c) ELSE IsWordU(c)     \* L, Mn, Nd, Pc: what \b uses under ECMAScript
IsWordCh(c)     == IsECMAWordCh(c) \/ c = 8204 \/ c = 8205          \* ... plus ZWNJ, ZWJ
IsDigitCh(c)    == IF c < 128 THEN (48 <= c /\ c <= 57) ELSE InU("Nd", c)
IsSpaceCh(c)    == IF c < 128 THEN ((9 <= c /\ c <= 13) \/ c = 32) ELSE IsSpaceU(c)
ECMASpace(c)    == InRanges(c, << <<9,13>>, <<32,32>>, <<160,160>>, <<5760,5760>>, <<8192,8202>>,
                                  <<8232,8233>>, <<8239,8239>>, <<8287,8287>>, <<12288,12288>>, <<65279,65279>> >>)
RE2Space(c)     == c \in {9, 10, 12, 13, 32}

ClsIn(cls, c) ==
  CASE cls = ""   -> FALSE
    [] cls = "d"  -> IsDigitCh(c)
    [] cls = "D"  -> ~IsDigitCh(c)
    [] cls = "w"  -> IsWordCh(c)
    [] cls = "W"  -> ~IsWordCh(c)
    [] cls = "s"  -> IsSpaceCh(c)
    [] cls = "S"  -> ~IsSpaceCh(c)
    [] cls = "ed" -> 48 <= c /\ c <= 57
    [] cls = "eD" -> ~(48 <= c /\ c <= 57)
    [] cls = "ew" -> AsciiWord(c)
    [] cls = "eW" -> ~AsciiWord(c)
    [] cls = "es" -> ECMASpace(c)
    [] cls = "eS" -> ~ECMASpace(c)
    [] cls = "rs" -> RE2Space(c)
    [] cls = "rS" -> ~RE2Space(c)

\* under ignore-case a set of ranges contains c iff it contains a member of c's simple case-fold orbit
\* (Unicode!FoldSet; CharClass.tla states the same rule for whole class expressions)
ChrOK(n, c) ==
  LET hit == IF n.ic THEN \E e \in FoldSet(c) : InRanges(e, n.rs) ELSE InRanges(c, n.rs)
  IN  (hit \/ ClsIn(n.cls, c)) # n.neg

\* a class with a subtraction [base-[sub]] is a chr node whose only kid is the subtracted class (itself a chr node)
RECURSIVE ChrIn(_,_,_)
ChrIn(p, n, c) == ChrOK(n, c) /\ (n.kids = <<>> \/ ~ChrIn(p, p[n.kids[1]], c))

CharEq(a, b, ic) == IF ic THEN ToLower(a) = ToLower(b) ELSE a = b

\* ---------------------------------------------------------------- anchors
AnchorOK(op, s, i, org) ==
  LET n == Len(s)
      wl(f(_)) == i > 0 /\ f(s[i])
      wr(f(_)) == i < n /\ f(s[i+1])
  IN
  CASE op = "beg"   -> i = 0
    [] op = "bol"   -> i = 0 \/ s[i] = NL
    [] op = "end"   -> i = n
    [] op = "endz"  -> i = n \/ (i = n - 1 /\ s[n] = NL)
    [] op = "eol"   -> i = n \/ s[i+1] = NL
    [] op = "start" -> i = org
    [] op = "wb"    -> wl(IsWordCh) # wr(IsWordCh)
    [] op = "nwb"   -> wl(IsWordCh) = wr(IsWordCh)
    [] op = "ewb"   -> wl(IsECMAWordCh) # wr(IsECMAWordCh)
    [] op = "newb"  -> wl(IsECMAWordCh) = wr(IsECMAWordCh)
    [] op = "awb"   -> wl(AsciiWord) # wr(AsciiWord)          \* RE2: \b is an ASCII word boundary
    [] op = "nawb"  -> wl(AsciiWord) = wr(AsciiWord)

IsAnchor(op) == op \in {"beg","bol","end","endz","eol","start","wb","nwb","ewb","newb","awb","nawb"}

\* ---------------------------------------------------------------- captures
NumGroups(p) == LET gs == {p[k].g : k \in {j \in 1..Len(p) : p[j].op \in {"grp", "bal"}}} \cup {p[k].ug : k \in {j \in 1..Len(p) : p[j].op = "bal"}} IN
                IF gs = {} THEN 0 ELSE CHOOSE m \in gs : \A x \in gs : x <= m
EmptyCaps(p) == [g \in 1..NumGroups(p) |-> <<>>]

Fail == [ok |-> FALSE]

\* frames: t = "n" (evaluate node id), "loop" (loop header: cnt iterations done, the last one
\* started at st), "endg" (close group id opened at st).  d = TRUE: consume leftwards.
F(nid, d) == [t |-> "n", id |-> nid, cnt |-> 0, st |-> 0, d |-> d]

(***************************************************************************)
(* Attempt(p, s, i0, org, rtl): run the whole pattern at position i0.      *)
(* Returns Fail or [ok, pos, caps]; pos is where the match ended (left end *)
(* when rtl).  ecma = TRUE gives ECMAScript back-reference behaviour (an   *)
(* unset group matches the empty string).                                  *)
(***************************************************************************)
AttemptE(p, s, i0, org, rtl, ecma) ==
  LET
    RECURSIVE Run(_,_,_), RunAlt(_,_,_,_,_,_)
    RunAlt(ks, j, d, rest, i, caps) ==
      IF j > Len(ks) THEN Fail
      ELSE LET r == Run(<<F(ks[j], d)>> \o rest, i, caps) IN
           IF r.ok THEN r ELSE RunAlt(ks, j + 1, d, rest, i, caps)
    Run(k, i, caps) ==
      IF k = <<>> THEN [ok |-> TRUE, pos |-> i, caps |-> caps]
      ELSE
      LET f == Head(k)  rest == Tail(k)  d == f.d IN
      IF f.t = "n" THEN
        LET n == p[f.id] IN
        CASE n.op = "chr" ->
               IF ~d THEN (IF i < Len(s) /\ ChrIn(p, n, s[i+1]) THEN Run(rest, i + 1, caps) ELSE Fail)
               ELSE       (IF i > 0      /\ ChrIn(p, n, s[i])   THEN Run(rest, i - 1, caps) ELSE Fail)
          [] n.op = "empty"   -> Run(rest, i, caps)
          [] n.op = "nothing" -> Fail
          [] IsAnchor(n.op)   -> IF AnchorOK(n.op, s, i, org) THEN Run(rest, i, caps) ELSE Fail
          [] n.op = "cat" ->
               LET m == Len(n.kids) IN
               Run([j \in 1..m |-> F(n.kids[IF d THEN m + 1 - j ELSE j], d)] \o rest, i, caps)
          [] n.op = "alt" -> RunAlt(n.kids, 1, d, rest, i, caps)
          [] n.op = "rep" ->
               Run(<<[t |-> "loop", id |-> f.id, cnt |-> 0, st |-> -1, d |-> d]>> \o rest, i, caps)
          [] n.op = "grp" ->
               IF n.g = 0 THEN Run(<<F(n.kids[1], d)>> \o rest, i, caps)
               ELSE Run(<<F(n.kids[1], d), [t |-> "endg", id |-> f.id, cnt |-> 0, st |-> i, d |-> d]>> \o rest, i, caps)
          [] n.op = "bal" ->    \* balancing group: the body, then the transfer (frame "endb")
               Run(<<F(n.kids[1], d), [t |-> "endb", id |-> f.id, cnt |-> 0, st |-> i, d |-> d]>> \o rest, i, caps)
          [] n.op = "look" ->
               LET r == Run(<<F(n.kids[1], FALSE)>>, i, caps) IN
               IF r.ok THEN Run(rest, i, r.caps) ELSE Fail
          [] n.op = "nlook" ->
               LET r == Run(<<F(n.kids[1], FALSE)>>, i, caps) IN
               IF r.ok THEN Fail ELSE Run(rest, i, caps)
          [] n.op = "lookb" ->
               LET r == Run(<<F(n.kids[1], TRUE)>>, i, caps) IN
               IF r.ok THEN Run(rest, i, r.caps) ELSE Fail
          [] n.op = "nlookb" ->
               LET r == Run(<<F(n.kids[1], TRUE)>>, i, caps) IN
               IF r.ok THEN Fail ELSE Run(rest, i, caps)
          [] n.op = "atom" ->
               LET r == Run(<<F(n.kids[1], d)>>, i, caps) IN
               IF r.ok THEN Run(rest, r.pos, r.caps) ELSE Fail
          [] n.op = "ref" ->
               LET c == caps[n.g] IN
               IF c = <<>> THEN (IF ecma THEN Run(rest, i, caps) ELSE Fail)
               ELSE LET st == c[Len(c)][1]  ln == c[Len(c)][2] IN
                 IF ~d THEN (IF i + ln <= Len(s) /\ \A j \in 1..ln : CharEq(s[st+j], s[i+j], n.ic)
                             THEN Run(rest, i + ln, caps) ELSE Fail)
                 ELSE       (IF i - ln >= 0 /\ \A j \in 1..ln : CharEq(s[st+j], s[i-ln+j], n.ic)
                             THEN Run(rest, i - ln, caps) ELSE Fail)
          [] n.op = "condref" ->   \* (?(g)yes|no): a test, not a choice point
               IF caps[n.g] # <<>> THEN Run(<<F(n.kids[1], d)>> \o rest, i, caps)
               ELSE Run(<<F(n.kids[2], d)>> \o rest, i, caps)
          [] n.op = "condexp" ->   \* (?(look)yes|no): kids[1] is a look-around node, committed once decided
               LET r == Run(<<F(n.kids[1], d)>>, i, caps) IN
               IF r.ok THEN Run(<<F(n.kids[2], d)>> \o rest, i, r.caps)
               ELSE Run(<<F(n.kids[3], d)>> \o rest, i, caps)
      ELSE IF f.t = "endb" THEN
        \* (?<cap-uncap>..): fails unless uncap holds a capture; pops uncap's last capture and, when cap is given, records
        \* the innermost interval between the popped capture and the text this group matched
        LET n  == p[f.id]
            a  == IF f.st < i THEN f.st ELSE i          \* this group's own interval [a, b]
            b  == IF f.st < i THEN i ELSE f.st
            old == caps[n.ug]
        IN IF old = <<>> THEN Fail
           ELSE LET s2 == old[Len(old)][1]
                    e2 == s2 + old[Len(old)][2]
                    new == IF a >= e2 THEN <<e2, a - e2>>
                           ELSE IF b <= s2 THEN <<b, s2 - b>>
                           ELSE LET lo == IF s2 > a THEN s2 ELSE a  hi == IF b > e2 THEN e2 ELSE b IN <<lo, hi - lo>>
                    caps1 == [caps EXCEPT ![n.ug] = SubSeq(@, 1, Len(@) - 1)]
                    caps2 == IF n.g = 0 THEN caps1 ELSE [caps1 EXCEPT ![n.g] = Append(@, new)]
                IN Run(rest, i, caps2)
      ELSE IF f.t = "endg" THEN
        LET n  == p[f.id]
            lo == IF f.st < i THEN f.st ELSE i
            hi == IF f.st < i THEN i ELSE f.st
        IN  Run(rest, i, [caps EXCEPT ![n.g] = Append(@, <<lo, hi - lo>>)])
      ELSE \* loop header
        LET n    == p[f.id]
            body == <<F(n.kids[1], d), [t |-> "loop", id |-> f.id, cnt |-> f.cnt + 1, st |-> i, d |-> d]>> \o rest
        IN
        \* the engine's empty-iteration rule: an iteration that consumed nothing, once the minimum is
        \* met, leaves the loop and is never retried
        IF f.cnt > 0 /\ f.st = i /\ f.cnt >= n.min THEN Run(rest, i, caps)
        ELSE IF f.cnt < n.min THEN Run(body, i, caps)
        ELSE IF n.max >= 0 /\ f.cnt >= n.max THEN Run(rest, i, caps)
        ELSE IF n.lazy THEN LET r == Run(rest, i, caps) IN IF r.ok THEN r ELSE Run(body, i, caps)
        ELSE LET r == Run(body, i, caps) IN IF r.ok THEN r ELSE Run(rest, i, caps)
  IN Run(<<F(1, rtl)>>, i0, EmptyCaps(p))

Attempt(p, s, i0, org, rtl) == AttemptE(p, s, i0, org, rtl, FALSE)

(***************************************************************************)
(* The scan loop.  A search starts at `start` (which is also the \G        *)
(* origin); after an empty previous match (prevLen = 0) the first attempt  *)
(* position is one further in scan order.  Result: None or                 *)
(* [ok, idx, len, caps, next] with next = the position at which the next   *)
(* search of an iteration starts.                                          *)
(***************************************************************************)
None == [ok |-> FALSE]

RECURSIVE ScanL(_,_,_,_,_), ScanR(_,_,_,_,_)
ScanL(p, s, i, org, ecma) ==
  IF i > Len(s) THEN None
  ELSE LET r == AttemptE(p, s, i, org, FALSE, ecma) IN
       IF r.ok THEN [ok |-> TRUE, idx |-> i, len |-> r.pos - i, caps |-> r.caps, next |-> r.pos]
       ELSE ScanL(p, s, i + 1, org, ecma)
ScanR(p, s, i, org, ecma) ==
  IF i < 0 THEN None
  ELSE LET r == AttemptE(p, s, i, org, TRUE, ecma) IN
       IF r.ok THEN [ok |-> TRUE, idx |-> r.pos, len |-> i - r.pos, caps |-> r.caps, next |-> r.pos]
       ELSE ScanR(p, s, i - 1, org, ecma)

FindE(p, s, start, prevLen, rtl, ecma) ==
  LET first == IF prevLen = 0 THEN (IF rtl THEN start - 1 ELSE start + 1) ELSE start IN
  IF rtl THEN ScanR(p, s, first, start, ecma) ELSE ScanL(p, s, first, start, ecma)

Find(p, s, start, prevLen, rtl) == FindE(p, s, start, prevLen, rtl, FALSE)

\* first match from the natural starting point
FindFirst(p, s, rtl) == Find(p, s, IF rtl THEN Len(s) ELSE 0, -1, rtl)
=============================================================================

---------------------------- MODULE StackPolicy ----------------------------
(***************************************************************************)
(* The backtracking-stack growth policy of the interpreter (C13) as a      *)
(* state machine.                                                          *)
(*   tc    number of opcodes that may push (Code.TrackCount); a forward    *)
(*         run of the program between two storage checks pushes at most    *)
(*         4*tc slots (the widest frame has 4 slots)                       *)
(*   lim   OptionMaxBacktrackingStackSize, -1 = unlimited                  *)
(*   cap   len(runtrack);  used  slots in use (len - Runtrackpos)          *)
(* Actions: Push(a) a forward run pushing a slots, Pop(b) backtracking,    *)
(* Ensure  ensureStorage at a backward jump: grow when free < 4*tc.        *)
(* Policy "single": one growTrack per ensureStorage (double, capped at     *)
(*   lim, fail only if no growth) - the code as found;                     *)
(* Policy "loop": keep growing until free >= 4*tc or growth is impossible  *)
(*   - the repaired code.                                                  *)
(* Properties: NoOverflow (used <= cap: a push beyond it is the index -1   *)
(* panic), CapWithinLimit, EnsureContract.                                 *)
(***************************************************************************)
EXTENDS Integers, Sequences, FiniteSets, TLC

CONSTANTS TCs, PosLims, MinInit, MaxCap, Policy
Lims == {-1} \cup PosLims      \* -1 = no limit

VARIABLES tc, lim, cap, used, st, ensured
vars == <<tc, lim, cap, used, st, ensured>>

Max(a, b) == IF a > b THEN a ELSE b
Min(a, b) == IF a < b THEN a ELSE b

InitCap(t, l) == LET want == Max(8 * t, MinInit) IN IF l >= 0 /\ want > l THEN l ELSE want
GrowTo(c, l) == LET d == IF c = 0 THEN 1 ELSE 2 * c IN IF l >= 0 /\ d > l THEN l ELSE d

Init == /\ tc \in TCs /\ lim \in Lims
        /\ cap = InitCap(tc, lim) /\ used = 0 /\ st = "run"
        /\ ensured = FALSE        \* every attempt starts with goTo(0), a storage check

\* a forward run of the program: may only start right after a storage check
Push(a) == /\ st = "run" /\ ensured /\ a \in 0..(4 * tc)
           /\ used' = used + a /\ ensured' = FALSE
           /\ UNCHANGED <<tc, lim, cap, st>>

Pop(b) == /\ st = "run" /\ b \in 1..used
          /\ used' = used - b
          /\ UNCHANGED <<tc, lim, cap, st, ensured>>

RECURSIVE GrowUntil(_,_,_,_)
GrowUntil(c, u, t, l) ==      \* capacity after the "loop" policy, or -1 if the limit makes it impossible
  IF c - u >= 4 * t THEN c
  ELSE LET n == GrowTo(c, l) IN IF n <= c THEN -1 ELSE GrowUntil(n, u, t, l)

Ensure == /\ st = "run" /\ ~ensured /\ used <= cap        \* (an overflowing run has already crashed)
          /\ IF cap - used >= 4 * tc THEN cap' = cap /\ st' = st
             ELSE IF Policy = "single"
                  THEN LET n == GrowTo(cap, lim) IN
                       IF n <= cap THEN st' = "error" /\ cap' = cap ELSE cap' = n /\ st' = st
                  ELSE LET n == GrowUntil(cap, used, tc, lim) IN
                       IF n < 0 THEN st' = "error" /\ cap' = cap ELSE cap' = n /\ st' = st
          /\ ensured' = TRUE
          /\ UNCHANGED <<tc, lim, used>>

Next == (\E a \in 0..(4 * tc) : Push(a)) \/ (\E b \in 1..used : Pop(b)) \/ Ensure
Spec == Init /\ [][Next]_vars

NoOverflow     == used <= cap
CapWithinLimit == lim >= 0 => cap <= lim
EnsureContract == (st = "run" /\ ensured) => cap - used >= 4 * tc \/ used = 0
Bounded        == cap <= MaxCap
=============================================================================

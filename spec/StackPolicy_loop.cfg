SPECIFICATION Spec
CONSTANTS
  TCs = {1, 2, 3}
  PosLims = {0, 1, 2, 3, 5, 7, 8, 9, 12, 15, 16, 17, 23, 24, 25, 31, 32, 33, 40, 47, 48, 49, 64}
  MinInit = 8
  MaxCap = 96
  Policy = "loop"
CONSTRAINT Bounded
INVARIANTS NoOverflow CapWithinLimit
CHECK_DEADLOCK FALSE

------------------------------- MODULE TreeIR -------------------------------
(***************************************************************************)
(* The meaning of the IMPLEMENTATION's tree vocabulary (syntax.RegexNode   *)
(* after reduction and final optimisation), given by translation into the  *)
(* node tables RegexSem interprets.  With it a RegexTree exported from the *)
(* real parser can be evaluated by TLC, which turns the tree rewrites of   *)
(* C05 into translation validation by model checking: the tree produced    *)
(* with the rewrites and the tree produced with the rewrite gates on must  *)
(* denote the same function on every string of the bounded language,       *)
(* independently of the interpreter.                                       *)
(*                                                                         *)
(* IR node: [t, ch, str, set, m, n, ic, rtl, kids]  (table, root = 1)      *)
(*   t    node type name (One Notone Set Oneloop .. Multi Ref Bol .. Loop  *)
(*        Lazyloop Capture Atomic PosLook NegLook BackRefCond ExprCond     *)
(*        Alternate Concatenate Empty Nothing UpdateBumpalong ..)          *)
(*   set  members of the node's set among the test alphabet                *)
(*   n    = -1 for "unbounded"; Capture: m = group number                  *)
(*   ic / rtl  the node's IgnoreCase / RightToLeft option bits             *)
(***************************************************************************)
EXTENDS Integers, Sequences, FiniteSets, RegexSem

S0 == [op |-> "", rs |-> <<>>, neg |-> FALSE, cls |-> "", ic |-> FALSE, min |-> 0, max |-> 0, lazy |-> FALSE, kids |-> <<>>, g |-> 0]

SChr(c, neg, ic)  == [S0 EXCEPT !.op = "chr", !.rs = << <<c, c>> >>, !.neg = neg, !.ic = ic]
SSet(members, ic) == [S0 EXCEPT !.op = "chr", !.rs = [k \in 1..Len(members) |-> <<members[k], members[k]>>], !.ic = ic]
SOp(o)            == [S0 EXCEPT !.op = o]
SUn(o, k)         == [S0 EXCEPT !.op = o, !.kids = <<k>>]
SRep(k, mn, mx, lz) == [S0 EXCEPT !.op = "rep", !.kids = <<k>>, !.min = mn, !.max = mx, !.lazy = lz]
SCat(ks)          == IF Len(ks) = 0 THEN SOp("empty") ELSE IF Len(ks) = 1 THEN ks[1] ELSE [S0 EXCEPT !.op = "cat", !.kids = ks]

Rev(q) == [k \in 1..Len(q) |-> q[Len(q) + 1 - k]]

\* dia: "net" | "re2" | "ecma" (decides \Z and \b as in Options.tla)
RECURSIVE IRTree(_,_,_)
IRTree(ir, id, dia) ==
  LET n == ir[id]
      kid(j) == IRTree(ir, n.kids[j], dia)
      kidsT == [j \in 1..Len(n.kids) |-> kid(j)]
      one == IF n.t \in {"One", "Oneloop", "Onelazy", "Oneloopatomic"} THEN SChr(n.ch, FALSE, n.ic)
             ELSE IF n.t \in {"Notone", "Notoneloop", "Notonelazy", "Notoneloopatomic"} THEN SChr(n.ch, TRUE, n.ic)
             ELSE SSet(n.set, n.ic)
  IN
  CASE n.t \in {"One", "Notone", "Set"} -> one
    [] n.t \in {"Oneloop", "Notoneloop", "Setloop"} -> SRep(one, n.m, n.n, FALSE)
    [] n.t \in {"Onelazy", "Notonelazy", "Setlazy"} -> SRep(one, n.m, n.n, TRUE)
    [] n.t \in {"Oneloopatomic", "Notoneloopatomic", "Setloopatomic"} -> SUn("atom", SRep(one, n.m, n.n, FALSE))
    [] n.t = "Multi" -> SCat([k \in 1..Len(n.str) |-> SChr(n.str[k], FALSE, n.ic)])      \* text order, whatever the direction
    [] n.t = "Ref" -> [S0 EXCEPT !.op = "ref", !.g = n.m, !.ic = n.ic]
    [] n.t = "Bol" -> SOp("bol")  [] n.t = "Eol" -> SOp("eol")
    [] n.t = "Beginning" -> SOp("beg")  [] n.t = "Start" -> SOp("start")
    [] n.t = "EndZ" -> SOp(IF dia = "net" THEN "endz" ELSE "end")  [] n.t = "End" -> SOp("end")
    [] n.t = "Boundary" -> SOp(IF dia = "re2" THEN "awb" ELSE "wb")
    [] n.t = "Nonboundary" -> SOp(IF dia = "re2" THEN "nawb" ELSE "nwb")
    [] n.t = "ECMABoundary" -> SOp("ewb")  [] n.t = "NonECMABoundary" -> SOp("newb")
    [] n.t \in {"Empty", "UpdateBumpalong"} -> SOp("empty")
    [] n.t = "Nothing" -> SOp("nothing")
    [] n.t = "Alternate" -> [S0 EXCEPT !.op = "alt", !.kids = kidsT]
    \* a right-to-left concatenation stores its children in execution order (reverseLeft): back to text order
    [] n.t = "Concatenate" -> SCat(IF n.rtl THEN Rev(kidsT) ELSE kidsT)
    [] n.t = "Loop" -> SRep(kid(1), n.m, n.n, FALSE)
    [] n.t = "Lazyloop" -> SRep(kid(1), n.m, n.n, TRUE)
    [] n.t = "Capture" -> [S0 EXCEPT !.op = "grp", !.kids = <<kid(1)>>, !.g = n.m]
    [] n.t = "Group" -> kid(1)
    [] n.t = "Atomic" -> SUn("atom", kid(1))
    [] n.t = "PosLook" -> SUn(IF n.rtl THEN "lookb" ELSE "look", kid(1))
    [] n.t = "NegLook" -> SUn(IF n.rtl THEN "nlookb" ELSE "nlook", kid(1))
    [] n.t = "BackRefCond" -> [S0 EXCEPT !.op = "condref", !.g = n.m,
                                        !.kids = <<kid(1), IF Len(n.kids) >= 2 THEN kid(2) ELSE SOp("empty")>>]
    \* the condition is evaluated in place and the position restored: a positive look-ahead in the node's direction
    [] n.t = "ExprCond" -> [S0 EXCEPT !.op = "condexp",
                                     !.kids = <<SUn(IF n.rtl THEN "lookb" ELSE "look", kid(1)), kid(2),
                                                IF Len(n.kids) >= 3 THEN kid(3) ELSE SOp("empty")>>]

\* flatten a semantic tree into a table (pre-order)
RECURSIVE SSize(_)
SSize(t) == LET RECURSIVE Sm(_) Sm(j) == IF j > Len(t.kids) THEN 0 ELSE SSize(t.kids[j]) + Sm(j + 1) IN 1 + Sm(1)
RECURSIVE SFlat(_,_)
SFlat(t, base) ==
  LET nk == Len(t.kids)
      RECURSIVE Off(_)
      Off(j) == IF j = 1 THEN base + 1 ELSE Off(j - 1) + SSize(t.kids[j - 1])
      RECURSIVE Rest(_)
      Rest(j) == IF j > nk THEN <<>> ELSE SFlat(t.kids[j], Off(j)) \o Rest(j + 1)
  IN <<[t EXCEPT !.kids = [j \in 1..nk |-> Off(j) + 1]]>> \o Rest(1)

\* the semantic table of an exported tree; the implicit root Capture(0) is dropped
IRSem(ir, dia) ==
  LET root == IF ir[1].t = "Capture" /\ ir[1].m = 0 THEN ir[1].kids[1] ELSE 1
  IN SFlat(IRTree(ir, root, dia), 0)

Supported(ir) == \A k \in 1..Len(ir) : ~(ir[k].t = "Capture" /\ ir[k].n # -1)     \* balancing groups are not interpreted
=============================================================================
